import Ysshra.Lemmas.Gensign
/-
More about `AddCertsToAgent`: what a *successful* refresh-and-add leaves in the agent.
-/
namespace Ysshra.Gensign
open Ysshra

/-- the record `AddCertsToAgent` stores for certificate `c` -/
def certRec (k : Key) (lt : Nat) (c : CertV) : AIdent := ⟨k, some c, certLabel, lt⟩

theorem put_mem (a : Agent) (id : AIdent) : id ∈ (agentAdd.put id a).idents := by
  unfold agentAdd.put
  split
  · rename_i hany
    simp only [List.any_eq_true, Bool.and_eq_true, decide_eq_true_eq] at hany
    obtain ⟨y, hy, hk, hc⟩ := hany
    simp only [List.mem_map]
    exact ⟨y, hy, by simp [hk, hc]⟩
  · simp

theorem agentAdd_ok_mem (a : Agent) (id : AIdent) (h : (agentAdd a id).2 = true) :
    id ∈ (agentAdd a id).1.idents := by
  obtain ⟨k, cert, cm, lt⟩ := id
  unfold agentAdd at h ⊢
  simp only [] at h ⊢
  by_cases hgo : a.tick.2 = true
  · simp only [hgo, Bool.not_true, Bool.false_eq_true, ↓reduceIte] at h ⊢
    cases cert with
    | none => exact put_mem _ _
    | some c =>
      simp only [] at h ⊢
      by_cases hk : c.key ≠ k
      · simp [hk] at h
      · simp only [hk, ↓reduceIte]; exact put_mem _ _
  · simp [hgo] at h

theorem put_new (a : Agent) (id : AIdent) : ∀ y ∈ (agentAdd.put id a).idents, y ∈ a.idents ∨ y = id := by
  intro y hy
  unfold agentAdd.put at hy
  split at hy
  · simp only [List.mem_map] at hy
    obtain ⟨z, hz, hzy⟩ := hy
    split at hzy
    · exact .inr hzy.symm
    · exact .inl (hzy ▸ hz)
  · simp only [List.mem_append, List.mem_singleton] at hy
    exact hy

theorem agentAdd_new (a : Agent) (id : AIdent) :
    ∀ y ∈ (agentAdd a id).1.idents, y ∈ a.idents ∨ y = id := by
  obtain ⟨k, cert, cm, lt⟩ := id
  intro y hy
  unfold agentAdd at hy
  simp only [] at hy
  by_cases hgo : a.tick.2 = true
  · simp only [hgo, Bool.not_true, Bool.false_eq_true, ↓reduceIte] at hy
    cases cert with
    | none => simpa [tick_idents] using put_new _ _ y hy
    | some c =>
      dsimp only at hy
      by_cases hk : c.key ≠ k
      · rw [if_pos hk] at hy; exact .inl (by simpa [tick_idents] using hy)
      · rw [if_neg hk] at hy; simpa [tick_idents] using put_new _ _ y hy
  · simp only [hgo, Bool.not_false, ↓reduceIte] at hy
    exact .inl (by simpa [tick_idents] using hy)

theorem agentAdd_fail_idents (a : Agent) (id : AIdent) (h : (agentAdd a id).2 = false) :
    (agentAdd a id).1.idents = a.idents := by
  obtain ⟨k, cert, cm, lt⟩ := id
  unfold agentAdd at h ⊢
  simp only [] at h ⊢
  by_cases hgo : a.tick.2 = true
  · simp only [hgo, Bool.not_true, Bool.false_eq_true, ↓reduceIte] at h ⊢
    cases cert with
    | none => simp at h
    | some c =>
      dsimp only at h ⊢
      by_cases hk : c.key ≠ k
      · rw [if_pos hk]; rfl
      · rw [if_neg hk] at h; simp at h
  · simp only [hgo, Bool.not_false, ↓reduceIte]; rfl

/-- a stored certificate record survives every later add of `AddCertsToAgent` (an add of the same
    certificate writes the identical record) -/
theorem certRec_stays (k : Key) (lt : Nat) (c c' : CertV) (a : Agent) (h : certRec k lt c ∈ a.idents) :
    certRec k lt c ∈ (agentAdd a (certRec k lt c')).1.idents := by
  by_cases hcc : c' = c
  · subst hcc
    cases hok : (agentAdd a (certRec k lt c')).2 with
    | true => exact agentAdd_ok_mem a _ hok
    | false => rw [agentAdd_fail_idents a _ hok]; exact h
  · apply agentAdd_keeps a _ _ h
    simp only [certRec, Option.some.injEq, true_and]
    exact fun e => hcc e.symm

theorem adds_stays (k : Key) (lt : Nat) (c : CertV) (a : Agent) (tr : Trace) (cs : List (Option CertV))
    (h : certRec k lt c ∈ a.idents) : certRec k lt c ∈ (addCerts.adds k lt a tr cs).1.idents := by
  induction cs generalizing a tr with
  | nil => exact h
  | cons c0 r ih =>
    unfold addCerts.adds
    cases c0 with
    | none => exact ih a tr h
    | some c' =>
      simp only []
      split
      · exact h
      · have h' := certRec_stays k lt c c' a h
        simp only [certRec] at h'
        cases hr : agentAdd a ⟨k, some c', certLabel, lt⟩ with
        | mk a' ok =>
          rw [hr] at h'
          cases ok
          · exact h'
          · exact ih a' _ h'

/-- after a successful `adds`, every certificate of the reply is in the agent, stored with the
    private key `k`, under the certificate label, with the lifetime `lt` -/
theorem adds_ok_present (k : Key) (lt : Nat) (a : Agent) (tr : Trace) (cs : List (Option CertV))
    (hok : (addCerts.adds k lt a tr cs).2.2 = true) :
    ∀ c, some c ∈ cs → certRec k lt c ∈ (addCerts.adds k lt a tr cs).1.idents := by
  induction cs generalizing a tr with
  | nil => intro c hc; cases hc
  | cons c0 r ih =>
    intro c hc
    unfold addCerts.adds at hok ⊢
    cases c0 with
    | none =>
      simp only [List.mem_cons, reduceCtorEq, false_or] at hc
      exact ih a tr hok c hc
    | some c' =>
      simp only [] at hok ⊢
      split at hok
      · simp at hok
      · rename_i hkey
        simp only [hkey, ↓reduceIte]
        cases hr : agentAdd a ⟨k, some c', certLabel, lt⟩ with
        | mk a' ok =>
          rw [hr] at hok
          cases ok
          · simp at hok
          · simp only [] at hok ⊢
            simp only [List.mem_cons, Option.some.injEq] at hc
            rcases hc with rfl | hc
            · have hm : certRec k lt c ∈ a'.idents := by
                have := agentAdd_ok_mem a ⟨k, some c, certLabel, lt⟩ (by rw [hr])
                rw [hr] at this; exact this
              exact adds_stays k lt c a' _ r hm
            · exact ih a' _ hok c hc

/-- whatever `adds` leaves in the agent was there before or is one of the reply's records -/
theorem adds_new (k : Key) (lt : Nat) (a : Agent) (tr : Trace) (cs : List (Option CertV)) :
    ∀ y ∈ (addCerts.adds k lt a tr cs).1.idents, y ∈ a.idents ∨ ∃ c, some c ∈ cs ∧ y = certRec k lt c := by
  induction cs generalizing a tr with
  | nil => intro y hy; exact .inl hy
  | cons c0 r ih =>
    intro y hy
    unfold addCerts.adds at hy
    cases c0 with
    | none =>
      rcases ih a tr y hy with h | ⟨c, hc, e⟩
      · exact .inl h
      · exact .inr ⟨c, List.mem_cons_of_mem _ hc, e⟩
    | some c' =>
      simp only [] at hy
      split at hy
      · exact .inl hy
      · cases hr : agentAdd a ⟨k, some c', certLabel, lt⟩ with
        | mk a' ok =>
          rw [hr] at hy
          have hnew := agentAdd_new a ⟨k, some c', certLabel, lt⟩
          rw [hr] at hnew
          cases ok
          · rcases hnew y hy with h | h
            · exact .inl h
            · exact .inr ⟨c', by simp, h⟩
          · rcases ih a' _ y hy with h | ⟨c, hc, e⟩
            · rcases hnew y h with h | h
              · exact .inl h
              · exact .inr ⟨c', by simp, h⟩
            · exact .inr ⟨c, List.mem_cons_of_mem _ hc, e⟩

/-- after a successful refresh over the agent's own listing, no identity carrying the handler's
    label is left -/
theorem removes_ok_no_label (a : Agent) (tr : Trace) (hok : (addCerts.removes a tr a.idents).2.2 = true) :
    ∀ x ∈ (addCerts.removes a tr a.idents).1.idents, containsSub handlerName x.comment = false := by
  intro x hx
  have hsub := removes_sub a tr a.idents x hx
  cases hc : containsSub handlerName x.comment with
  | false => rfl
  | true => exact absurd ⟨rfl, rfl⟩ (removes_ok_clears a tr a.idents hok x hsub hc x hx)

end Ysshra.Gensign
