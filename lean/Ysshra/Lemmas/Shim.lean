import Ysshra.Model.Shim
/-
Frame lemmas for the shim model: what `removeCore` / `removeFn` / the three filter passes can and
cannot change.
-/
namespace Ysshra.Shim
open Ysshra

theorem dropCache_certs (s : State) (b : Blob) : (dropCache s b).certs = s.certs := by
  unfold dropCache; split <;> (try split) <;> rfl
theorem dropCache_locked (s : State) (b : Blob) : (dropCache s b).locked = s.locked := by
  unfold dropCache; split <;> (try split) <;> rfl
theorem dropCache_noUp (s : State) (b : Blob) : (dropCache s b).noUp = s.noUp := by
  unfold dropCache; split <;> (try split) <;> rfl
theorem dropCache_u (s : State) (b : Blob) : (dropCache s b).u = s.u := by
  unfold dropCache; split <;> (try split) <;> rfl
theorem dropCache_cache_off (s : State) (b : Blob) (h : s.noUp = false) : (dropCache s b).cache = s.cache := by
  unfold dropCache; simp [h]
theorem dropCache_cache_sub (s : State) (b : Blob) : ∀ c ∈ (dropCache s b).cache, c ∈ s.cache := by
  intro c hc
  unfold dropCache at hc
  split at hc
  · split at hc
    · simp only [List.mem_filter] at hc; exact hc.1
    · exact hc
  · exact hc

/-- the certificate table after `Server.remove(b)`: unchanged, or without the entries for `b` -/
theorem removeCore_certs (s : State) (f : Faults) (b : Blob) :
    (removeCore s f b).1.certs = s.certs ∨
    ∃ c, b = .cert c ∧ (removeCore s f b).1.certs = s.certs.filter (·.cert ≠ c) := by
  unfold removeCore
  cases b with
  | key k =>
    left
    simp only []
    cases h : s.u.remove f (.key k) with
    | mk u' ok => cases ok <;> simp [dropCache_certs]
  | cert c =>
    simp only []
    cases h : ({ s with certs := s.certs.filter (·.cert ≠ c) } : State).u.remove f (.cert c) with
    | mk u' ok =>
      cases ok
      · by_cases hm : hasCert s c = true
        · right; exact ⟨c, rfl, by simp [hm, dropCache_certs]⟩
        · left; simp [hm]
      · right; exact ⟨c, rfl, by simp [dropCache_certs]⟩

theorem removeCore_mem_sub (s : State) (f : Faults) (b : Blob) :
    ∀ mc ∈ (removeCore s f b).1.certs, mc ∈ s.certs := by
  intro mc h
  rcases removeCore_certs s f b with e | ⟨c, _, e⟩
  · rwa [e] at h
  · rw [e] at h; exact (List.mem_filter.1 h).1

/-- only entries for the removed certificate can disappear -/
theorem removeCore_keeps (s : State) (f : Faults) (b : Blob) (mc : MemCert) (hm : mc ∈ s.certs)
    (hne : Blob.cert mc.cert ≠ b) : mc ∈ (removeCore s f b).1.certs := by
  rcases removeCore_certs s f b with e | ⟨c, hb, e⟩
  · rwa [e]
  · rw [e]; refine List.mem_filter.2 ⟨hm, ?_⟩
    have : mc.cert ≠ c := fun h => hne (by rw [hb, h])
    simpa using this

theorem removeCore_locked (s : State) (f : Faults) (b : Blob) : (removeCore s f b).1.locked = s.locked := by
  unfold removeCore
  cases b <;> simp only [] <;> split <;> (try split) <;> simp [dropCache_locked]

theorem removeCore_noUp (s : State) (f : Faults) (b : Blob) : (removeCore s f b).1.noUp = s.noUp := by
  unfold removeCore
  cases b <;> simp only [] <;> split <;> (try split) <;> simp [dropCache_noUp]

theorem removeCore_cache_sub (s : State) (f : Faults) (b : Blob) :
    ∀ c ∈ (removeCore s f b).1.cache, c ∈ s.cache := by
  intro c hc
  unfold removeCore at hc
  cases b <;> simp only [] at hc <;> split at hc <;> (try split at hc) <;>
    first
    | exact hc
    | (have := dropCache_cache_sub _ _ c hc; exact this)

/-- a successful removal of an in-memory certificate really removes it -/
theorem removeCore_removes (s : State) (f : Faults) (c : Cert) (h : (removeCore s f (.cert c)).2 = true) :
    ∀ mc ∈ (removeCore s f (.cert c)).1.certs, mc.cert ≠ c := by
  unfold removeCore at h ⊢
  simp only [] at h ⊢
  cases hr : ({ s with certs := s.certs.filter (·.cert ≠ c) } : State).u.remove f (.cert c) with
  | mk u' ok =>
    rw [hr] at h
    cases ok
    · by_cases hm : hasCert s c = true
      · simp only [hm, ↓reduceIte, dropCache_certs]
        intro mc hmc; simpa using (List.mem_filter.1 hmc).2
      · simp [hm] at h
    · simp only [dropCache_certs]
      intro mc hmc; simpa using (List.mem_filter.1 hmc).2

/-- removing an in-memory certificate always succeeds -/
theorem removeCore_inMem_ok (s : State) (f : Faults) (c : Cert) (h : hasCert s c = true) :
    (removeCore s f (.cert c)).2 = true := by
  unfold removeCore
  simp only [h]
  split <;> simp

/-! `removeFn` inherits all of it -/

theorem removeFn_state (s : State) (f : Faults) (ka : KeyArr) (b : Blob) :
    (removeFn s f ka b).1 = (removeCore s f b).1 := by
  unfold removeFn
  cases h : removeCore s f b with
  | mk s' ok =>
    cases ok
    · rfl
    · simp only []; split <;> (try split) <;> rfl

theorem removeFn_ok (s : State) (f : Faults) (ka : KeyArr) (b : Blob) :
    (removeFn s f ka b).2.2 = (removeCore s f b).2 := by
  unfold removeFn
  cases h : removeCore s f b with
  | mk s' ok =>
    cases ok
    · rfl
    · simp only []; split <;> (try split) <;> rfl

end Ysshra.Shim

namespace Ysshra.Shim

/-- `s'` differs from `s` only by having lost certificates / cache entries (and in the
    underlying agent) -/
structure Shrinks (s s' : State) : Prop where
  noUp : s'.noUp = s.noUp
  locked : s'.locked = s.locked
  cache : ∀ c ∈ s'.cache, c ∈ s.cache
  certs : ∀ mc ∈ s'.certs, mc ∈ s.certs

theorem Shrinks.refl (s : State) : Shrinks s s := ⟨rfl, rfl, fun _ h => h, fun _ h => h⟩

theorem Shrinks.trans {a b c : State} (h1 : Shrinks a b) (h2 : Shrinks b c) : Shrinks a c :=
  ⟨h2.noUp.trans h1.noUp, h2.locked.trans h1.locked, fun x hx => h1.cache x (h2.cache x hx),
   fun x hx => h1.certs x (h2.certs x hx)⟩

theorem removeCore_shrinks (s : State) (f : Faults) (b : Blob) : Shrinks s (removeCore s f b).1 :=
  ⟨removeCore_noUp s f b, removeCore_locked s f b, removeCore_cache_sub s f b, removeCore_mem_sub s f b⟩

theorem removeFn_shrinks (s : State) (f : Faults) (ka : KeyArr) (b : Blob) : Shrinks s (removeFn s f ka b).1 := by
  rw [removeFn_state]; exact removeCore_shrinks s f b

theorem foldl_shrinks {α} (g : State × KeyArr → α → State × KeyArr)
    (hg : ∀ acc x, Shrinks acc.1 (g acc x).1) (l : List α) (acc : State × KeyArr) :
    Shrinks acc.1 (l.foldl g acc).1 := by
  induction l generalizing acc with
  | nil => exact Shrinks.refl _
  | cons x r ih => exact (hg acc x).trans (ih (g acc x))

theorem filterOrphans_shrinks (s : State) (f : Faults) (ka : KeyArr) : Shrinks s (filterOrphans s f ka).1 := by
  by_cases h : (List.take ka.len ka.arr).isEmpty = true
  · simp only [filterOrphans, h, ↓reduceIte]; exact Shrinks.refl s
  · simp only [filterOrphans, h, Bool.false_eq_true, ↓reduceIte]
    apply foldl_shrinks (acc := (s, ka))
    intro acc mc
    split
    · exact Shrinks.refl _
    · exact removeFn_shrinks _ _ _ _

theorem expiredInMemory_shrinks (now : Nat) (f : Faults) (s : State) (ka : KeyArr) :
    Shrinks s (expiredInMemory now f s ka).1 := by
  unfold expiredInMemory
  apply foldl_shrinks (acc := (s, ka))
  intro acc mc
  split
  · exact Shrinks.refl _
  · exact removeFn_shrinks _ _ _ _

theorem expiredInAgent_shrinks (now : Nat) (f : Faults) (fuel i : Nat) (s : State) (ka : KeyArr) (err : Bool) :
    Shrinks s (expiredInAgent now f fuel i s ka err).1 := by
  induction fuel generalizing i s ka err with
  | zero => exact Shrinks.refl s
  | succ n ih =>
    unfold expiredInAgent
    split
    · exact Shrinks.refl s
    · rename_i id _
      cases hb : id.blob with
      | key k => simpa using ih (i + 1) s ka err
      | cert c =>
        simp only []
        split
        · exact ih _ _ _ _
        · exact (removeFn_shrinks s f ka (.cert c)).trans (ih _ _ _ _)

/-- `filter` only ever shrinks the shim's tables -/
theorem filter_shrinks (s : State) (now : Nat) (f : Faults) : Shrinks s (filter s now f).1 := by
  unfold filter
  cases hl : s.u.list f with
  | mk u1 r =>
    cases r with
    | none => exact ⟨rfl, rfl, fun _ h => h, fun _ h => h⟩
    | some keys =>
      simp only []
      have h0 : Shrinks s { s with u := u1 } := ⟨rfl, rfl, fun _ h => h, fun _ h => h⟩
      have h1 := filterOrphans_shrinks { s with u := u1 } f ⟨keys, keys.length⟩
      have h2 := expiredInAgent_shrinks now f (filterOrphans { s with u := u1 } f ⟨keys, keys.length⟩).2.len 0
        (filterOrphans { s with u := u1 } f ⟨keys, keys.length⟩).1
        (filterOrphans { s with u := u1 } f ⟨keys, keys.length⟩).2 false
      have h3 := expiredInMemory_shrinks now f
        (expiredInAgent now f (filterOrphans { s with u := u1 } f ⟨keys, keys.length⟩).2.len 0
          (filterOrphans { s with u := u1 } f ⟨keys, keys.length⟩).1
          (filterOrphans { s with u := u1 } f ⟨keys, keys.length⟩).2 false).1
        (expiredInAgent now f (filterOrphans { s with u := u1 } f ⟨keys, keys.length⟩).2.len 0
          (filterOrphans { s with u := u1 } f ⟨keys, keys.length⟩).1
          (filterOrphans { s with u := u1 } f ⟨keys, keys.length⟩).2 false).2.1
      have := h0.trans (h1.trans (h2.trans h3))
      split <;> exact this

end Ysshra.Shim

namespace Ysshra.Shim

theorem foldl_keeps {α} (g : State × KeyArr → α → State × KeyArr) (mc : MemCert) (l : List α)
    (hg : ∀ acc x, x ∈ l → mc ∈ acc.1.certs → mc ∈ (g acc x).1.certs)
    (acc : State × KeyArr) (h : mc ∈ acc.1.certs) : mc ∈ (l.foldl g acc).1.certs := by
  induction l generalizing acc with
  | nil => exact h
  | cons x r ih =>
    exact ih (fun a y hy => hg a y (List.mem_cons_of_mem _ hy)) (g acc x) (hg acc x (List.mem_cons_self ..) h)

theorem removeFn_keeps (s : State) (f : Faults) (ka : KeyArr) (b : Blob) (mc : MemCert) (hm : mc ∈ s.certs)
    (hne : Blob.cert mc.cert ≠ b) : mc ∈ (removeFn s f ka b).1.certs := by
  rw [removeFn_state]; exact removeCore_keeps s f b mc hm hne

/-- the orphan pass keeps a certificate whose key is listed; with an empty listing it keeps all -/
theorem filterOrphans_keeps (s : State) (f : Faults) (ka : KeyArr) (mc : MemCert) (hm : mc ∈ s.certs)
    (hk : (ka.arr.take ka.len) = [] ∨ mc.cert.key ∈ (ka.arr.take ka.len).map (·.blob.pub)) :
    mc ∈ (filterOrphans s f ka).1.certs := by
  by_cases h : (List.take ka.len ka.arr).isEmpty = true
  · simp only [filterOrphans, h, ↓reduceIte]; exact hm
  · simp only [filterOrphans, h, Bool.false_eq_true, ↓reduceIte]
    have hkey : mc.cert.key ∈ (ka.arr.take ka.len).map (·.blob.pub) := by
      rcases hk with hk | hk
      · simp [hk] at h
      · exact hk
    apply foldl_keeps _ mc s.certs _ (s, ka) hm
    intro acc x _ hacc
    split
    · exact hacc
    · rename_i hnot
      apply removeFn_keeps _ _ _ _ _ hacc
      intro heq
      simp only [Blob.cert.injEq] at heq
      apply hnot
      rw [← heq]; simpa using hkey

theorem expiredInMemory_keeps (now : Nat) (f : Faults) (s : State) (ka : KeyArr) (mc : MemCert)
    (hm : mc ∈ s.certs) (hv : validAt mc.cert now = true) : mc ∈ (expiredInMemory now f s ka).1.certs := by
  unfold expiredInMemory
  apply foldl_keeps _ mc s.certs _ (s, ka) hm
  intro acc x _ hacc
  split
  · exact hacc
  · rename_i hinv
    apply removeFn_keeps _ _ _ _ _ hacc
    intro heq
    simp only [Blob.cert.injEq] at heq
    rw [← heq] at hinv; exact hinv hv

theorem expiredInAgent_keeps (now : Nat) (f : Faults) (fuel i : Nat) (s : State) (ka : KeyArr) (err : Bool)
    (mc : MemCert) (hm : mc ∈ s.certs) (hv : validAt mc.cert now = true) :
    mc ∈ (expiredInAgent now f fuel i s ka err).1.certs := by
  induction fuel generalizing i s ka err with
  | zero => exact hm
  | succ n ih =>
    unfold expiredInAgent
    split
    · exact hm
    · rename_i id _
      cases hb : id.blob with
      | key k => simpa using ih (i + 1) s ka err hm
      | cert c =>
        simp only []
        split
        · exact ih _ _ _ _ hm
        · rename_i hinv
          apply ih
          apply removeFn_keeps _ _ _ _ _ hm
          intro heq
          simp only [Blob.cert.injEq] at heq
          rw [← heq] at hinv; exact hinv hv

/-- `filter` never discards a still-valid in-memory certificate whose key is listed (or when the
    listing is empty or fails), whatever the underlying agent does -/
theorem filter_keeps (s : State) (now : Nat) (f : Faults) (mc : MemCert) (hm : mc ∈ s.certs)
    (hv : validAt mc.cert now = true)
    (hkey : ∀ keys, (s.u.list f).2 = some keys → keys = [] ∨ mc.cert.key ∈ keys.map (·.blob.pub)) :
    mc ∈ (filter s now f).1.certs := by
  unfold filter
  cases hl : s.u.list f with
  | mk u1 r =>
    cases r with
    | none => exact hm
    | some keys =>
      simp only []
      have hk := hkey keys (by rw [hl])
      have h1 : mc ∈ (filterOrphans { s with u := u1 } f ⟨keys, keys.length⟩).1.certs :=
        filterOrphans_keeps _ f _ mc hm (by simpa using hk)
      have h2 := expiredInAgent_keeps now f (filterOrphans { s with u := u1 } f ⟨keys, keys.length⟩).2.len 0
        _ (filterOrphans { s with u := u1 } f ⟨keys, keys.length⟩).2 false mc h1 hv
      have h3 := expiredInMemory_keeps now f _
        (expiredInAgent now f (filterOrphans { s with u := u1 } f ⟨keys, keys.length⟩).2.len 0
          (filterOrphans { s with u := u1 } f ⟨keys, keys.length⟩).1
          (filterOrphans { s with u := u1 } f ⟨keys, keys.length⟩).2 false).2.1 mc h2 hv
      split <;> exact h3

end Ysshra.Shim
