import Ysshra.Lemmas.Shim
/-
The in-agent half of `filterExpiredCerts`: the loop walks the *original* index range over a live
backing array from which `remove` swap-removes entries.  Invariant-based proof that, when every
removal succeeded, no certificate outside its validity window is left in the listing.
-/
namespace Ysshra.Shim
open Ysshra

/-- the current slice -/
def KeyArr.live (ka : KeyArr) : List Ident := ka.arr.take ka.len

/-- what a successful `remove` does to the slice -/
def swapRemove (ka : KeyArr) (b : Blob) : KeyArr :=
  match ka.live.findIdx? (·.blob = b) with
  | none => ka
  | some j =>
    match ka.arr[ka.len - 1]? with
    | none => ka
    | some last => ⟨ka.arr.set j last, ka.len - 1⟩

theorem removeFn_arr_ok (s : State) (f : Faults) (ka : KeyArr) (b : Blob) (h : (removeFn s f ka b).2.2 = true) :
    (removeFn s f ka b).2.1 = swapRemove ka b := by
  unfold removeFn at h ⊢
  unfold swapRemove KeyArr.live
  cases hc : removeCore s f b with
  | mk s' ok =>
    rw [hc] at h
    cases ok with
    | false => simp at h
    | true =>
      simp only []
      cases hfi : List.findIdx? (fun x => decide (x.blob = b)) (List.take ka.len ka.arr) with
      | none => rfl
      | some j =>
        simp only []
        cases hl : ka.arr[ka.len - 1]? <;> rfl

theorem removeFn_arr_fail (s : State) (f : Faults) (ka : KeyArr) (b : Blob) (h : (removeFn s f ka b).2.2 = false) :
    (removeFn s f ka b).2.1 = ka := by
  unfold removeFn at h ⊢
  cases hc : removeCore s f b with
  | mk s' ok =>
    rw [hc] at h
    cases ok with
    | false => rfl
    | true =>
      simp only [] at h
      split at h
      · simp at h
      · split at h <;> simp at h

/-- entries of a slice have pairwise different public blobs (the keyring replaces on add) -/
def Distinct (l : List Ident) : Prop :=
  ∀ (i j : Nat) (x y : Ident), l[i]? = some x → l[j]? = some y → x.blob = y.blob → i = j

/-- well-formed slice header -/
def KeyArr.WF (ka : KeyArr) : Prop := ka.len ≤ ka.arr.length

theorem live_getElem? (ka : KeyArr) (t : Nat) : ka.live[t]? = if t < ka.len then ka.arr[t]? else none := by
  unfold KeyArr.live; exact List.getElem?_take

/-- index-wise description of the slice after a swap-remove that found its entry -/
theorem swapRemove_found (ka : KeyArr) (b : Blob) (j : Nat) (hwf : ka.WF)
    (hj : ka.live.findIdx? (·.blob = b) = some j) :
    ∃ last, ka.arr[ka.len - 1]? = some last ∧ j < ka.len ∧
      swapRemove ka b = ⟨ka.arr.set j last, ka.len - 1⟩ ∧
      ∀ t, (swapRemove ka b).live[t]? =
        if t < ka.len - 1 then (if t = j then some last else ka.arr[t]?) else none := by
  obtain ⟨hjl, _, _⟩ := List.findIdx?_eq_some_iff_getElem.mp hj
  have hjlen : j < ka.len := by
    unfold KeyArr.live at hjl; rw [List.length_take] at hjl; omega
  have hlast : ka.len - 1 < ka.arr.length := by unfold KeyArr.WF at hwf; omega
  refine ⟨ka.arr[ka.len - 1], List.getElem?_eq_getElem hlast, hjlen, ?_, ?_⟩
  · unfold swapRemove; rw [hj]; simp only [List.getElem?_eq_getElem hlast]
  · intro t
    have hsr : swapRemove ka b = ⟨ka.arr.set j ka.arr[ka.len - 1], ka.len - 1⟩ := by
      unfold swapRemove; rw [hj]; simp only [List.getElem?_eq_getElem hlast]
    rw [hsr, live_getElem?]
    simp only []
    split
    · rw [List.getElem?_set]
      have hjarr : j < ka.arr.length := by unfold KeyArr.WF at hwf; omega
      by_cases htj : t = j
      · subst htj; simp [hjarr]
      · have : ¬ j = t := fun e => htj e.symm
        simp [this, htj]
    · rfl

theorem swapRemove_notfound (ka : KeyArr) (b : Blob) (hj : ka.live.findIdx? (·.blob = b) = none) :
    swapRemove ka b = ka := by unfold swapRemove; rw [hj]

theorem swapRemove_wf (ka : KeyArr) (b : Blob) (hwf : ka.WF) : (swapRemove ka b).WF := by
  cases hj : ka.live.findIdx? (·.blob = b) with
  | none => rw [swapRemove_notfound ka b hj]; exact hwf
  | some j =>
    obtain ⟨last, _, _, hsr, _⟩ := swapRemove_found ka b j hwf hj
    rw [hsr]; unfold KeyArr.WF at hwf ⊢; simp only [List.length_set]; omega

theorem swapRemove_length (ka : KeyArr) (b : Blob) (hwf : ka.WF) :
    (swapRemove ka b).arr.length = ka.arr.length := by
  cases hj : ka.live.findIdx? (·.blob = b) with
  | none => rw [swapRemove_notfound ka b hj]
  | some j =>
    obtain ⟨last, _, _, hsr, _⟩ := swapRemove_found ka b j hwf hj
    rw [hsr]; simp

/-- every entry of the new slice was in the old one … -/
theorem swapRemove_sub (ka : KeyArr) (b : Blob) (hwf : ka.WF) :
    ∀ x ∈ (swapRemove ka b).live, x ∈ ka.live := by
  cases hj : ka.live.findIdx? (·.blob = b) with
  | none => rw [swapRemove_notfound ka b hj]; exact fun _ h => h
  | some j =>
    obtain ⟨last, hlast, hjlen, _, hget⟩ := swapRemove_found ka b j hwf hj
    intro x hx
    obtain ⟨t, ht⟩ := List.mem_iff_getElem?.mp hx
    rw [hget t] at ht
    split at ht
    · rename_i htl
      rw [List.mem_iff_getElem?]
      split at ht
      · refine ⟨ka.len - 1, ?_⟩
        rw [live_getElem?, if_pos (by omega)]; rw [← ht]; exact hlast
      · refine ⟨t, ?_⟩
        rw [live_getElem?, if_pos (by omega)]; exact ht
    · cases ht

/-- … and, entries being distinct, none of them has the removed blob; distinctness is kept -/
theorem swapRemove_distinct (ka : KeyArr) (b : Blob) (hwf : ka.WF) (hd : Distinct ka.live) :
    Distinct (swapRemove ka b).live ∧ ∀ x ∈ (swapRemove ka b).live, x.blob ≠ b := by
  cases hj : ka.live.findIdx? (·.blob = b) with
  | none =>
    rw [swapRemove_notfound ka b hj]
    refine ⟨hd, ?_⟩
    intro x hx
    have := List.findIdx?_eq_none_iff.mp hj x hx
    simpa using this
  | some j =>
    obtain ⟨last, hlast, hjlen, _, hget⟩ := swapRemove_found ka b j hwf hj
    obtain ⟨hjl, hpj, _⟩ := List.findIdx?_eq_some_iff_getElem.mp hj
    have hLj : ka.live[j]? = some ka.live[j] := List.getElem?_eq_getElem hjl
    have hbj : ka.live[j].blob = b := by simpa using hpj
    -- every index of the new slice names an index ≠ j of the old one
    have key : ∀ t x, (swapRemove ka b).live[t]? = some x →
        ∃ u, u ≠ j ∧ ka.live[u]? = some x ∧ (u = t ∨ (t = j ∧ u = ka.len - 1)) := by
      intro t x ht
      rw [hget t] at ht
      split at ht
      · rename_i htl
        split at ht
        · rename_i htj
          refine ⟨ka.len - 1, by omega, ?_, .inr ⟨htj, rfl⟩⟩
          rw [live_getElem?, if_pos (by omega), ← ht]; exact hlast
        · rename_i htj
          refine ⟨t, htj, ?_, .inl rfl⟩
          rw [live_getElem?, if_pos (by omega)]; exact ht
      · cases ht
    constructor
    · intro t1 t2 x y h1 h2 hxy
      obtain ⟨u1, hu1, hx1, hc1⟩ := key t1 x h1
      obtain ⟨u2, hu2, hx2, hc2⟩ := key t2 y h2
      have hu := hd u1 u2 x y hx1 hx2 hxy
      -- t < len - 1 for both (they index the new slice)
      have hb1 : t1 < ka.len - 1 := by
        rw [hget t1] at h1; split at h1
        · assumption
        · cases h1
      have hb2 : t2 < ka.len - 1 := by
        rw [hget t2] at h2; split at h2
        · assumption
        · cases h2
      rcases hc1 with rfl | ⟨rfl, rfl⟩ <;> rcases hc2 with rfl | ⟨rfl, rfl⟩ <;> omega
    · intro x hx hxb
      obtain ⟨t, ht⟩ := List.mem_iff_getElem?.mp hx
      obtain ⟨u, hu, hxu, _⟩ := key t x ht
      exact hu (hd u j x ka.live[j] hxu hLj (by rw [hxb, hbj]))

end Ysshra.Shim

namespace Ysshra.Shim
open Ysshra

/-- loop invariant of the in-agent pass at index `i`: `A` is the backing array and `n` the slice
    length at loop entry -/
structure LoopInv (A : List Ident) (n now i : Nat) (ka : KeyArr) : Prop where
  wf : ka.WF
  len : ka.arr.length = A.length
  le : ka.len ≤ n
  tail : ∀ j, i ≤ j → ka.arr[j]? = A[j]?
  distinct : Distinct ka.live
  /-- a certificate outside its window that is still in the slice sits at an original position the
      loop has not visited yet -/
  pending : ∀ x ∈ ka.live, ∀ c, x.blob = .cert c → validAt c now = false → ∃ p, i ≤ p ∧ p < n ∧ A[p]? = some x

theorem expiredInAgent_err_mono (now : Nat) (f : Faults) (fuel i : Nat) (s : State) (ka : KeyArr) :
    (expiredInAgent now f fuel i s ka true).2.2 = true := by
  induction fuel generalizing i s ka with
  | zero => rfl
  | succ m ih =>
    unfold expiredInAgent
    split
    · rfl
    · split
      · split
        · exact ih _ _ _
        · simp only [Bool.true_or]; exact ih _ _ _
      · exact ih _ _ _

/-- when every removal succeeded, the slice the in-agent pass leaves holds no certificate outside
    its validity window -/
theorem expiredInAgent_inv (A : List Ident) (n now : Nat) (f : Faults) (hn : n ≤ A.length) :
    ∀ fuel i s ka, i + fuel = n → LoopInv A n now i ka →
      (expiredInAgent now f fuel i s ka false).2.2 = false →
      LoopInv A n now n (expiredInAgent now f fuel i s ka false).2.1 := by
  intro fuel
  induction fuel with
  | zero =>
    intro i s ka hi hinv _
    have : i = n := by omega
    subst this; exact hinv
  | succ m ih =>
    intro i s ka hi hinv herr
    have hilt : i < A.length := by omega
    have harr : ka.arr[i]? = some A[i] := by rw [hinv.tail i (Nat.le_refl _)]; exact List.getElem?_eq_getElem hilt
    unfold expiredInAgent at herr ⊢
    rw [harr] at herr ⊢
    simp only [] at herr ⊢
    -- stepping over an entry that is a key or a certificate inside its window
    have skip : (∀ c, A[i].blob = .cert c → validAt c now = true) → LoopInv A n now (i + 1) ka := by
      intro hv
      refine ⟨hinv.wf, hinv.len, hinv.le, fun j hj => hinv.tail j (by omega), hinv.distinct, ?_⟩
      intro x hx c hxc hinval
      obtain ⟨p, hp, hpn, hAp⟩ := hinv.pending x hx c hxc hinval
      by_cases hpi : p = i
      · subst hpi
        rw [List.getElem?_eq_getElem hilt] at hAp
        simp only [Option.some.injEq] at hAp
        have := hv c (by rw [hAp]; exact hxc)
        rw [this] at hinval; cases hinval
      · exact ⟨p, by omega, hpn, hAp⟩
    cases hb : A[i].blob with
    | key k =>
      rw [hb] at herr
      simp only [] at herr ⊢
      exact ih (i + 1) s ka (by omega) (skip (fun c hc => by rw [hb] at hc; cases hc)) herr
    | cert c =>
      rw [hb] at herr
      simp only [] at herr ⊢
      by_cases hval : validAt c now = true
      · rw [if_pos hval] at herr ⊢
        exact ih (i + 1) s ka (by omega)
          (skip (fun c' hc' => by rw [hb] at hc'; cases hc'; exact hval)) herr
      · rw [if_neg hval] at herr ⊢
        cases hr : removeFn s f ka (.cert c) with
        | mk s' r =>
          obtain ⟨ka', ok⟩ := r
          rw [hr] at herr
          simp only [] at herr ⊢
          cases ok with
          | false =>
            simp only [Bool.false_or, Bool.not_false] at herr
            rw [expiredInAgent_err_mono] at herr; cases herr
          | true =>
            simp only [Bool.false_or, Bool.not_true] at herr ⊢
            have hka' : ka' = swapRemove ka (.cert c) := by
              have := removeFn_arr_ok s f ka (.cert c) (by rw [hr])
              rw [hr] at this; exact this
            subst hka'
            obtain ⟨hdist, hnob⟩ := swapRemove_distinct ka (.cert c) hinv.wf hinv.distinct
            refine ih (i + 1) s' _ (by omega) ⟨swapRemove_wf ka _ hinv.wf, ?_, ?_, ?_, hdist, ?_⟩ herr
            · rw [swapRemove_length ka _ hinv.wf]; exact hinv.len
            · cases hj : ka.live.findIdx? (·.blob = Blob.cert c) with
              | none => rw [swapRemove_notfound ka _ hj]; exact hinv.le
              | some j0 =>
                obtain ⟨last, _, _, hsr, _⟩ := swapRemove_found ka _ j0 hinv.wf hj
                rw [hsr]; simp only []; have := hinv.le; omega
            · -- positions after `i` are untouched: the entry found is at an index ≤ i
              intro j hj
              cases hfi : ka.live.findIdx? (·.blob = Blob.cert c) with
              | none => rw [swapRemove_notfound ka _ hfi]; exact hinv.tail j (by omega)
              | some j0 =>
                obtain ⟨last, _, hj0len, hsr, _⟩ := swapRemove_found ka _ j0 hinv.wf hfi
                obtain ⟨hj0l, _, hmin⟩ := List.findIdx?_eq_some_iff_getElem.mp hfi
                have hj0i : j0 ≤ i := by
                  by_cases hil : i < ka.len
                  · -- the entry at `i` itself matches
                    apply Nat.le_of_not_lt
                    intro hlt
                    have hil' : i < ka.live.length := by omega
                    have := hmin i hlt
                    have hli : ka.live[i] = A[i] := by
                      have h1 : ka.live[i]? = some A[i] := by rw [live_getElem?, if_pos hil]; exact harr
                      rw [List.getElem?_eq_getElem hil'] at h1
                      exact Option.some.inj h1
                    rw [hli] at this
                    simp [hb] at this
                  · omega
                rw [hsr]
                simp only []
                rw [List.getElem?_set]
                have : ¬ j0 = j := by omega
                simp only [this, ↓reduceIte]
                exact hinv.tail j (by omega)
            · intro x hx c' hxc hinval
              have hxl := swapRemove_sub ka _ hinv.wf x hx
              obtain ⟨p, hp, hpn, hAp⟩ := hinv.pending x hxl c' hxc hinval
              by_cases hpi : p = i
              · subst hpi
                rw [List.getElem?_eq_getElem hilt] at hAp
                simp only [Option.some.injEq] at hAp
                exact absurd (by rw [← hAp]; exact hb) (hnob x hx)
              · exact ⟨p, by omega, hpn, hAp⟩

end Ysshra.Shim

namespace Ysshra.Shim
open Ysshra

/-- what any call of the `remove` closure keeps true of the slice -/
structure Good (L0 : List Ident) (ka : KeyArr) : Prop where
  wf : ka.WF
  distinct : Distinct ka.live
  sub : ∀ x ∈ ka.live, x ∈ L0

theorem removeFn_good (L0 : List Ident) (s : State) (f : Faults) (ka : KeyArr) (b : Blob) (h : Good L0 ka) :
    Good L0 (removeFn s f ka b).2.1 := by
  cases hok : (removeFn s f ka b).2.2 with
  | false => rw [removeFn_arr_fail s f ka b hok]; exact h
  | true =>
    rw [removeFn_arr_ok s f ka b hok]
    exact ⟨swapRemove_wf ka b h.wf, (swapRemove_distinct ka b h.wf h.distinct).1,
      fun x hx => h.sub x (swapRemove_sub ka b h.wf x hx)⟩

theorem foldl_good {α} (L0 : List Ident) (f : Faults) (cond : α → Bool) (blob : α → Blob) (l : List α)
    (s : State) (ka : KeyArr) (h : Good L0 ka) :
    Good L0 (l.foldl (fun (acc : State × KeyArr) x =>
      if cond x then acc else let (s', ka', _) := removeFn acc.1 f acc.2 (blob x); (s', ka')) (s, ka)).2 := by
  induction l generalizing s ka with
  | nil => exact h
  | cons x r ih =>
    simp only [List.foldl_cons]
    split
    · exact ih s ka h
    · exact ih _ _ (removeFn_good L0 s f ka (blob x) h)

theorem filterOrphans_good (L0 : List Ident) (s : State) (f : Faults) (ka : KeyArr) (h : Good L0 ka) :
    Good L0 (filterOrphans s f ka).2 := by
  unfold filterOrphans
  simp only []
  split
  · exact h
  · exact foldl_good L0 f (fun mc => (List.map (fun x => x.blob.pub) (List.take ka.len ka.arr)).contains mc.cert.key)
      (fun mc => .cert mc.cert) s.certs s ka h

theorem expiredInMemory_good (L0 : List Ident) (now : Nat) (s : State) (f : Faults) (ka : KeyArr) (h : Good L0 ka) :
    Good L0 (expiredInMemory now f s ka).2 := by
  unfold expiredInMemory
  exact foldl_good L0 f (fun mc => validAt mc.cert now) (fun mc => .cert mc.cert) s.certs s ka h

theorem expiredInAgent_good (L0 : List Ident) (now : Nat) (f : Faults) :
    ∀ fuel i s ka err, Good L0 ka → Good L0 (expiredInAgent now f fuel i s ka err).2.1 := by
  intro fuel
  induction fuel with
  | zero => intro i s ka err h; exact h
  | succ m ih =>
    intro i s ka err h
    unfold expiredInAgent
    split
    · exact h
    · split
      · split
        · exact ih _ _ _ _ h
        · exact ih _ _ _ _ (removeFn_good L0 s f ka _ h)
      · exact ih _ _ _ _ h

/-- the slice handed to the in-agent pass satisfies the loop invariant at index 0 -/
theorem loopInv_init (ka : KeyArr) (now : Nat) (hwf : ka.WF) (hd : Distinct ka.live) :
    LoopInv ka.arr ka.len now 0 ka := by
  refine ⟨hwf, rfl, Nat.le_refl _, fun _ _ => rfl, hd, ?_⟩
  intro x hx c _ _
  obtain ⟨p, hp⟩ := List.mem_iff_getElem?.mp hx
  rw [live_getElem?] at hp
  split at hp
  · rename_i hlt; exact ⟨p, Nat.zero_le _, hlt, hp⟩
  · cases hp

/-- all certificates of the slice are inside their validity window -/
def AllValid (now : Nat) (l : List Ident) : Prop := ∀ x ∈ l, ∀ c, x.blob = .cert c → validAt c now = true

theorem loopInv_final (A : List Ident) (n now : Nat) (ka : KeyArr) (h : LoopInv A n now n ka) :
    AllValid now ka.live := by
  intro x hx c hc
  cases hv : validAt c now with
  | true => rfl
  | false =>
    obtain ⟨p, hp1, hp2, _⟩ := h.pending x hx c hc hv
    omega

end Ysshra.Shim
