import Ysshra.Model.KeyId
namespace Ysshra
namespace KeyID

theorem idx0 : fieldIndex tags c!"prins" = some 0 := by decide
theorem idx1 : fieldIndex tags c!"transID" = some 1 := by decide
theorem idx2 : fieldIndex tags c!"reqUser" = some 2 := by decide
theorem idx3 : fieldIndex tags c!"reqIP" = some 3 := by decide
theorem idx4 : fieldIndex tags c!"reqHost" = some 4 := by decide
theorem idx5 : fieldIndex tags c!"isFirefighter" = some 5 := by decide
theorem idx6 : fieldIndex tags c!"isHWKey" = some 6 := by decide
theorem idx7 : fieldIndex tags c!"isHeadless" = some 7 := by decide
theorem idx8 : fieldIndex tags c!"isNonce" = some 8 := by decide
theorem idx9 : fieldIndex tags c!"usage" = some 9 := by decide
theorem idx10 : fieldIndex tags c!"touchPolicy" = some 10 := by decide
theorem idx11 : fieldIndex tags c!"ver" = some 11 := by decide

theorem decStrElems_map_str (bk ps : List Str) : decStrElems bk (ps.map JVal.str) = some ps := by
  induction ps generalizing bk with
  | nil => rfl
  | cons p ps ih => simp [decStrElems, ih]

theorem decStrSlice_map_str (ps : List Str) :
    (decStrSlice [] (.arr (ps.map JVal.str))).map (·.1) = some (some ps) := by
  cases ps with
  | nil => rfl
  | cons p ps =>
    have := decStrElems_map_str [] (p :: ps)
    simp only [List.map_cons] at this
    simp [decStrSlice, this]

theorem anyFailsList_map_str (ps : List Str) : anyFailsList (ps.map JVal.str) = false := by
  induction ps with
  | nil => rfl
  | cons p ps ih => simp [anyFailsList, JVal.anyFails, ih]

theorem asInt_ofInt (i : Int) (h1 : -(2^63 : Int) ≤ i) (h2 : i < 2^63) :
    (JNum.ofInt i).asInt 64 = some i := by
  unfold JNum.asInt JNum.ofInt
  simp only [Bool.not_true, Bool.false_eq_true, ↓reduceIte]
  by_cases h : i < 0
  · simp only [h, decide_true, ↓reduceIte]
    have : -((i.natAbs : Nat) : Int) = i := by omega
    rw [this]; simp; omega
  · simp only [h, decide_false, Bool.false_eq_true, ↓reduceIte]
    have : ((i.natAbs : Nat) : Int) = i := by omega
    rw [this]; simp; omega

theorem asUint_ofNat (n : Nat) (h : n < 2^16) :
    (JNum.ofInt (n : Int)).asUint 16 = some n := by
  unfold JNum.asUint JNum.ofInt
  have : ¬ ((n : Int) < 0) := by omega
  simp [this, h]

theorem sane_iff (k : KeyID) : sane k = true ↔ k.consistent := by
  unfold sane saneHeadless saneNonce consistent
  cases k.IsHeadless <;> cases k.IsNonce <;> cases k.IsHWKey <;> cases k.IsFirefighter <;> simp

end KeyID
end Ysshra
