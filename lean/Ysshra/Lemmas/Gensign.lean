import Ysshra.Model.Gensign
import Ysshra.Lemmas.SwapRemove
namespace Ysshra.Gensign
open Ysshra

/-- events that issue something: a request generation, a CA call, an addition to the agent -/
def Event.issues : Event → Bool
  | .generate _ | .caSign _ _ | .agentAdd _ _ _ _ _ => true
  | _ => false

theorem tick_idents (a : Agent) : a.tick.1.idents = a.idents := rfl

theorem agentSign_idents (a : Agent) (pk : Key) (d : Nat) : (agentSign a pk d).1.idents = a.idents := by
  unfold agentSign
  simp only []
  split
  · rfl
  · split <;> (try split) <;> rfl

/-- the regular handler's authentication issues nothing and touches no identity -/
theorem regularAuth_trace (conf : Conf) (p : Param) (w : World) :
    (∀ e ∈ (regularAuth conf p w).2.1, e.issues = false) ∧
    (regularAuth conf p w).1.agent.idents = w.agent.idents ∧
    (regularAuth conf p w).1.ca = w.ca ∧ (regularAuth conf p w).1.lastCert = w.lastCert ∧
    w.rng ≤ (regularAuth conf p w).1.rng := by
  unfold regularAuth
  split
  · simp
  · split
    · simp
    · split
      · simp
      · rename_i pk _
        simp only []
        have hid := agentSign_idents w.agent pk w.rng
        cases hs : agentSign w.agent pk w.rng with
        | mk a r =>
          rw [hs] at hid
          cases r with
          | none => simp [Event.issues]; exact hid
          | some sig =>
            simp only []
            split <;> (simp [Event.issues]; exact hid)

/-- The regular handler authenticates exactly when: the policy is NONS, no hardware key is asked
    for, a key is registered for the login name, and the forwarded agent returned a signature that
    verifies under that key over the challenge drawn for this call. -/
theorem regularAuth_ok_iff (conf : Conf) (p : Param) (w : World) :
    (regularAuth conf p w).2.2 = none ↔
      p.nons = true ∧ p.hardKey = false ∧
      ∃ pk, registeredKey conf.dir = some pk ∧
        ∃ sig, (agentSign w.agent pk w.rng).2 = some sig ∧ verifies pk w.rng sig = true := by
  unfold regularAuth
  cases hn : p.nons <;> cases hh : p.hardKey <;> simp
  cases hk : registeredKey conf.dir with
  | none => simp
  | some pk =>
    simp only [Option.some.injEq, exists_eq_left']
    cases hs : agentSign w.agent pk w.rng with
    | mk a r =>
      cases r with
      | none => simp
      | some sig =>
        simp only [Option.some.injEq, exists_eq_left']
        split <;> simp_all

/-- … and then the challenge it signed is the fresh draw `w.rng`, recorded as the single
    sign request of the call -/
theorem regularAuth_ok_trace (conf : Conf) (p : Param) (w : World) (h : (regularAuth conf p w).2.2 = none) :
    ∃ pk, registeredKey conf.dir = some pk ∧ (regularAuth conf p w).2.1 = [.agentSign pk w.rng true] ∧
      (regularAuth conf p w).1.rng = w.rng + 1 := by
  unfold regularAuth at h ⊢
  cases hn : p.nons <;> cases hh : p.hardKey <;> simp [hn, hh] at h ⊢
  cases hk : registeredKey conf.dir with
  | none => simp [hk] at h
  | some pk =>
    simp only [hk] at h ⊢
    cases hs : agentSign w.agent pk w.rng with
    | mk a r =>
      rw [hs] at h
      cases r with
      | none => simp at h
      | some sig =>
        simp only [] at h ⊢
        split at h
        · rename_i hv; simp [hv]
        · simp at h

theorem authOf_trace (conf : Conf) (p : Param) (i : Nat) (h : Handler) (w : World) :
    (∀ e ∈ (authOf conf p i h w).2.1, e.issues = false) ∧
    (authOf conf p i h w).1.agent.idents = w.agent.idents ∧
    (authOf conf p i h w).1.ca = w.ca ∧ (authOf conf p i h w).1.lastCert = w.lastCert ∧
    w.rng ≤ (authOf conf p i h w).1.rng := by
  cases h with
  | regular =>
    have := regularAuth_trace conf p w
    simp only [authOf]
    refine ⟨?_, this.2.1, this.2.2.1, this.2.2.2.1, this.2.2.2.2⟩
    intro e he
    simp only [List.mem_cons] at he
    rcases he with rfl | he
    · rfl
    · exact this.1 e he
  | scripted s =>
    cases s <;> simp [authOf, Event.issues]

/-- The selection loop issues nothing, keeps every identity, and calls the handlers in order. -/
theorem selectHandler_trace (conf : Conf) (p : Param) (i : Nat) (hs : List Handler) (w : World) :
    (∀ e ∈ (selectHandler conf p i hs w).2.1, e.issues = false) ∧
    (selectHandler conf p i hs w).1.agent.idents = w.agent.idents ∧
    (selectHandler conf p i hs w).1.ca = w.ca ∧ (selectHandler conf p i hs w).1.lastCert = w.lastCert ∧
    w.rng ≤ (selectHandler conf p i hs w).1.rng := by
  induction hs generalizing i w with
  | nil => simp [selectHandler]
  | cons h rest ih =>
    have ha := authOf_trace conf p i h w
    unfold selectHandler
    cases hauth : authOf conf p i h w with
    | mk w1 r =>
      obtain ⟨tr, res⟩ := r
      rw [hauth] at ha
      simp only [] at ha
      cases res with
      | none => simpa using ha
      | some e =>
        cases e <;> first
          | (simp only []; exact ha)
          | (simp only []
             have ih' := ih (i + 1) w1
             refine ⟨?_, ih'.2.1.trans ha.2.1, ih'.2.2.1.trans ha.2.2.1, ih'.2.2.2.1.trans ha.2.2.2.1,
               Nat.le_trans ha.2.2.2.2 ih'.2.2.2.2⟩
             intro ev hev
             simp only [List.mem_append] at hev
             rcases hev with hev | hev
             · exact ha.1 ev hev
             · exact ih'.1 ev hev)

/-- what a successful selection means: handler `j` of the list authenticated, every handler
    before it was asked and refused (none after it was asked at all) -/
theorem selectHandler_ok (conf : Conf) (p : Param) (i : Nat) (hs : List Handler) (w : World) (j : Nat) (h : Handler)
    (hsel : (selectHandler conf p i hs w).2.2 = .ok (j, h)) :
    i ≤ j ∧ hs[j - i]? = some h ∧
    ∃ w0 pre, (authOf conf p j h w0).2.2 = none ∧
      (selectHandler conf p i hs w).1 = (authOf conf p j h w0).1 ∧
      (selectHandler conf p i hs w).2.1 = pre ++ (authOf conf p j h w0).2.1 ∧ w.rng ≤ w0.rng := by
  induction hs generalizing i w with
  | nil => simp [selectHandler] at hsel
  | cons h0 rest ih =>
    unfold selectHandler at hsel ⊢
    cases hauth : authOf conf p i h0 w with
    | mk w1 r =>
      obtain ⟨tr, res⟩ := r
      rw [hauth] at hsel
      cases res with
      | none =>
        simp only [] at hsel ⊢
        simp only [Except.ok.injEq, Prod.mk.injEq] at hsel
        obtain ⟨rfl, rfl⟩ := hsel
        exact ⟨Nat.le_refl _, by simp, w, [], by rw [hauth], by rw [hauth], by rw [hauth]; rfl, Nat.le_refl _⟩
      | some e =>
        cases e <;> simp only [] at hsel ⊢ <;> (try (simp at hsel; done)) <;>
          (obtain ⟨h1, h2, w0, pre, h3, h4, h5, h6⟩ := ih (i + 1) w1 hsel
           have hrng : w.rng ≤ w1.rng := by
             have := (authOf_trace conf p i h0 w).2.2.2.2; rw [hauth] at this; exact this
           refine ⟨by omega, ?_, w0, tr ++ pre, h3, h4, ?_, Nat.le_trans hrng h6⟩
           · have : j - i = (j - (i + 1)) + 1 := by omega
             rw [this]; simpa using h2
           · rw [h5, List.append_assoc])

/-- when nobody authenticates the loop says so (a panic is the only other way out) -/
theorem selectHandler_err (conf : Conf) (p : Param) (i : Nat) (hs : List Handler) (w : World) (e : ErrKind)
    (hsel : (selectHandler conf p i hs w).2.2 = .error e) : e = .allAuthFailed ∨ e = .panic := by
  induction hs generalizing i w with
  | nil => simp [selectHandler] at hsel; exact .inl hsel.symm
  | cons h0 rest ih =>
    unfold selectHandler at hsel
    cases hauth : authOf conf p i h0 w with
    | mk w1 r =>
      obtain ⟨tr, res⟩ := r
      rw [hauth] at hsel
      cases res with
      | none => simp at hsel
      | some e0 =>
        cases e0 <;> simp only [] at hsel <;>
          first
          | exact ih (i + 1) w1 hsel
          | (simp at hsel; exact .inr hsel.symm)

end Ysshra.Gensign

namespace Ysshra.Gensign

/-- an identity the handler's refresh filter does not select -/
def foreign (x : AIdent) : Prop := containsSub handlerName x.comment = false

theorem agentRemove_keeps (a : Agent) (id x : AIdent) (hx : x ∈ a.idents)
    (hne : ¬ (x.key = id.key ∧ x.cert = id.cert)) : x ∈ (agentRemove a id).1.idents := by
  unfold agentRemove
  simp only []
  split
  · exact hx
  · split
    · show x ∈ swapRemoveAll _ (2 * a.idents.length + 1) 0 a.idents
      rw [mem_swapRemoveAll']
      refine ⟨hx, ?_⟩
      simp only [Bool.and_eq_false_iff, decide_eq_false_iff_not]
      by_cases h1 : x.key = id.key
      · right; exact fun h2 => hne ⟨h1, h2⟩
      · left; exact h1
    · exact hx

theorem agentRemove_sub (a : Agent) (id : AIdent) : ∀ x ∈ (agentRemove a id).1.idents, x ∈ a.idents := by
  intro x hx
  unfold agentRemove at hx
  simp only [] at hx
  split at hx
  · exact hx
  · split at hx
    · have hx' : x ∈ swapRemoveAll _ (2 * a.idents.length + 1) 0 a.idents := hx
      rw [mem_swapRemoveAll'] at hx'
      exact hx'.1
    · exact hx

/-- `refreshKeys`: identities that do not carry the handler's label survive, whatever happens -/
theorem removes_keeps_foreign (a : Agent) (tr : Trace) (ids : List AIdent) (x : AIdent)
    (hx : x ∈ a.idents) (_hf : foreign x)
    (hids : ∀ y ∈ ids, containsSub handlerName y.comment = true → ¬ (x.key = y.key ∧ x.cert = y.cert)) :
    x ∈ (addCerts.removes a tr ids).1.idents := by
  induction ids generalizing a tr with
  | nil => exact hx
  | cons id r ih =>
    unfold addCerts.removes
    split
    · rename_i hc
      have hne := hids id (List.mem_cons_self ..) hc
      have hx' := agentRemove_keeps a id x hx hne
      cases hr : agentRemove a id with
      | mk a' ok =>
        rw [hr] at hx'
        cases ok
        · exact hx'
        · exact ih a' _ hx' (fun y hy => hids y (List.mem_cons_of_mem _ hy))
    · exact ih a tr hx (fun y hy => hids y (List.mem_cons_of_mem _ hy))

theorem removes_sub (a : Agent) (tr : Trace) (ids : List AIdent) :
    ∀ x ∈ (addCerts.removes a tr ids).1.idents, x ∈ a.idents := by
  induction ids generalizing a tr with
  | nil => intro x hx; exact hx
  | cons id r ih =>
    intro x hx
    unfold addCerts.removes at hx
    split at hx
    · cases hr : agentRemove a id with
      | mk a' ok =>
        rw [hr] at hx
        have hs := agentRemove_sub a id
        rw [hr] at hs
        cases ok
        · exact hs x hx
        · exact hs x (ih a' _ x hx)
    · exact ih a tr x hx

/-- after a successful refresh none of the listed labelled identities is left -/
theorem removes_ok_clears (a : Agent) (tr : Trace) (ids : List AIdent)
    (hok : (addCerts.removes a tr ids).2.2 = true) :
    ∀ y ∈ ids, containsSub handlerName y.comment = true →
      ∀ x ∈ (addCerts.removes a tr ids).1.idents, ¬ (x.key = y.key ∧ x.cert = y.cert) := by
  induction ids generalizing a tr with
  | nil => intro y hy; cases hy
  | cons id r ih =>
    intro y hy hc x hx
    unfold addCerts.removes at hok hx
    by_cases hcid : containsSub handlerName id.comment = true
    · simp only [hcid, ↓reduceIte] at hok hx
      cases hr : agentRemove a id with
      | mk a' ok =>
        rw [hr] at hok hx
        cases ok
        · simp at hok
        · simp only [] at hok hx
          simp only [List.mem_cons] at hy
          rcases hy with rfl | hy
          · -- the head was removed: nothing with its (key, cert) is left in a', nor later
            have hsub := removes_sub a' (tr ++ [.agentRemove y.key y.cert true]) r x hx
            unfold agentRemove at hr
            simp only [] at hr
            split at hr
            · simp at hr
            · split at hr
              · simp only [Prod.mk.injEq, and_true] at hr
                subst hr
                have hsub' : x ∈ swapRemoveAll _ (2 * a.idents.length + 1) 0 a.idents := hsub
                rw [mem_swapRemoveAll'] at hsub'
                have h2 := hsub'.2
                simp only [Bool.and_eq_false_iff, decide_eq_false_iff_not] at h2
                rintro ⟨h3, h4⟩
                rcases h2 with h2 | h2
                · exact h2 h3
                · exact h2 h4
              · simp at hr
          · exact ih a' _ hok y hy hc x hx
    · simp only [hcid, Bool.false_eq_true, ↓reduceIte] at hok hx
      simp only [List.mem_cons] at hy
      rcases hy with rfl | hy
      · exact absurd hc hcid
      · exact ih a tr hok y hy hc x hx

theorem agentAdd_keeps (a : Agent) (id x : AIdent) (hx : x ∈ a.idents)
    (hne : ¬ (x.key = id.key ∧ x.cert = id.cert)) : x ∈ (agentAdd a id).1.idents := by
  unfold agentAdd
  simp only []
  split
  · exact hx
  · have hput : x ∈ (agentAdd.put id a.tick.1).idents := by
      unfold agentAdd.put
      split
      · simp only [List.mem_map]
        refine ⟨x, hx, ?_⟩
        have : (decide (x.key = id.key) && decide (x.cert = id.cert)) = false := by simpa using hne
        simp [this]
      · simp [tick_idents, hx]
    split
    · split
      · exact hx
      · exact hput
    · exact hput

/-- the adds keep every identity that is not overwritten by a certificate for the same key -/
theorem adds_keeps (k : Key) (lt : Nat) (a : Agent) (tr : Trace) (cs : List (Option CertV)) (x : AIdent)
    (hx : x ∈ a.idents) (hk : x.key ≠ k) : x ∈ (addCerts.adds k lt a tr cs).1.idents := by
  induction cs generalizing a tr with
  | nil => exact hx
  | cons c r ih =>
    unfold addCerts.adds
    cases c with
    | none => exact ih a tr hx
    | some c =>
      simp only []
      split
      · exact hx
      · have hx' := agentAdd_keeps a ⟨k, some c, certLabel, lt⟩ x hx (fun h => hk h.1)
        cases hr : agentAdd a ⟨k, some c, certLabel, lt⟩ with
        | mk a' ok =>
          rw [hr] at hx'
          cases ok
          · exact hx'
          · exact ih a' _ hx'

/-- every add request `AddCertsToAgent` sends carries the key of this run, the certificate label
    and the finite lifetime -/
theorem adds_events (k : Key) (lt : Nat) (a : Agent) (tr : Trace) (cs : List (Option CertV))
    (P : Event → Prop) (htr : ∀ e ∈ tr, P e)
    (hP : ∀ c ok, P (.agentAdd k (some c) lt certLabel ok)) :
    ∀ e ∈ (addCerts.adds k lt a tr cs).2.1, P e := by
  induction cs generalizing a tr with
  | nil => exact htr
  | cons c r ih =>
    unfold addCerts.adds
    cases c with
    | none => exact ih a tr htr
    | some c =>
      simp only []
      split
      · exact htr
      · have hext : ∀ ok, ∀ e ∈ tr ++ [Event.agentAdd k (some c) lt certLabel ok], P e := by
          intro ok e he
          simp only [List.mem_append, List.mem_singleton] at he
          rcases he with he | rfl
          · exact htr e he
          · exact hP c ok
        cases hr : agentAdd a ⟨k, some c, certLabel, lt⟩ with
        | mk a' ok =>
          cases ok
          · exact hext false
          · exact ih a' _ (hext true)

theorem removes_events (a : Agent) (tr : Trace) (ids : List AIdent) (P : Event → Prop) (htr : ∀ e ∈ tr, P e)
    (hP : ∀ k c ok, P (.agentRemove k c ok)) : ∀ e ∈ (addCerts.removes a tr ids).2.1, P e := by
  induction ids generalizing a tr with
  | nil => exact htr
  | cons id r ih =>
    unfold addCerts.removes
    have hext : ∀ ok, ∀ e ∈ tr ++ [Event.agentRemove id.key id.cert ok], P e := by
      intro ok e he
      simp only [List.mem_append, List.mem_singleton] at he
      rcases he with he | rfl
      · exact htr e he
      · exact hP _ _ ok
    split
    · cases hr : agentRemove a id with
      | mk a' ok =>
        cases ok
        · exact hext false
        · exact ih a' _ (hext true)
    · exact ih a tr htr


/-- the trace of `Generate` is the single add of the private key (no certificate) -/
theorem C03_private_only (conf : Conf) (p : Param) (w : World) :
    ∀ e ∈ (regularGenerate conf p w).2.1,
      ∃ ok, e = .agentAdd (.fresh w.rng) none (lifetimeOf conf.validity) privateKeyLabel ok := by
  unfold regularGenerate
  simp only []
  split
  · intro e he; simp at he; exact ⟨false, he⟩
  · split <;> (intro e he; simp at he; exact ⟨true, he⟩)

theorem caSign_only_ca (k : Key) (w : World) : ∀ e ∈ (caSign k w).2.1, ∃ k' ok', e = Event.caSign k' ok' := by
  unfold caSign
  split
  · intro e he; simp at he; exact ⟨_, _, he⟩
  · split <;> (intro e he; simp at he; exact ⟨_, _, he⟩)

theorem signAll_only_ca (k : Key) (n : Nat) (w : World) :
    ∀ e ∈ (signAll k n w).2.1, ∃ k' ok', e = Event.caSign k' ok' := by
  induction n generalizing w with
  | zero => simp [signAll]
  | succ m ih =>
    unfold signAll
    have hc := caSign_only_ca k w
    cases hcs : caSign k w with
    | mk w1 r =>
      obtain ⟨tr, res⟩ := r
      rw [hcs] at hc
      cases res with
      | error e => exact hc
      | ok cs =>
        simp only []
        have := ih w1
        cases hs : signAll k m w1 with
        | mk w2 r2 =>
          obtain ⟨tr2, res2⟩ := r2
          rw [hs] at this
          cases res2 <;>
            (intro e he
             simp only [List.mem_append] at he
             rcases he with he | he
             · exact hc e he
             · exact this e he)


theorem caSign_err (k : Key) (w : World) (e : ErrKind) (h : (caSign k w).2.2 = .error e) :
    (e = .signerSign ∨ e = .panic) ∧ (caSign k w).2.1 = [.caSign k false] := by
  unfold caSign at h ⊢
  cases hca : w.ca with
  | nil => simp [hca] at h ⊢; exact .inl h.symm
  | cons r rest =>
    cases r <;> simp [hca] at h ⊢
    · exact .inl h.symm
    · exact .inr h.symm

theorem caSign_ok (k : Key) (w : World) (cs : List (Option CertV)) (h : (caSign k w).2.2 = .ok cs) :
    (caSign k w).2.1 = [.caSign k true] := by
  unfold caSign at h ⊢
  cases hca : w.ca with
  | nil => simp [hca] at h
  | cons r rest => cases r <;> simp [hca] at h ⊢


theorem regularAuth_err_kind (conf : Conf) (p : Param) (w : World) (e : ErrKind)
    (h : (regularAuth conf p w).2.2 = some e) : e = .handlerAuthN := by
  unfold regularAuth at h
  cases hn : p.nons <;> cases hh : p.hardKey <;> simp [hn, hh] at h <;> try exact h.symm
  cases hk : registeredKey conf.dir with
  | none => simp [hk] at h; exact h.symm
  | some pk =>
    simp only [hk] at h
    cases hs : agentSign w.agent pk w.rng with
    | mk a r =>
      rw [hs] at h
      cases r with
      | none => simp at h; exact h.symm
      | some sig =>
        simp only [] at h
        split at h
        · simp at h
        · simp at h; exact h.symm

/-- the trace of a run with the regular handler alone, step by step -/
def regularTrace (conf : Conf) (p : Param) (w : World) : Trace :=
  .auth 0 :: (regularAuth conf p w).2.1 ++
  match (regularAuth conf p w).2.2 with
  | some _ => []
  | none =>
    let w1 := (regularAuth conf p w).1
    .generate 0 :: (regularGenerate conf p w1).2.1 ++
    match (regularGenerate conf p w1).2.2 with
    | .error _ => []
    | .ok (k, _) =>
      let w2 := (regularGenerate conf p w1).1
      (signAll k 1 w2).2.1 ++
      match (signAll k 1 w2).2.2 with
      | .error _ => []
      | .ok certs => (addCerts conf k certs (signAll k 1 w2).1).2.1

theorem run_regular_trace (conf : Conf) (p : Param) (w : World) :
    (run conf p [.regular] w).2.1 = regularTrace conf p w := by
  unfold run selectHandler authOf regularTrace
  cases hra : regularAuth conf p w with
  | mk w1 r =>
    obtain ⟨tr, res⟩ := r
    cases res with
    | some e =>
      have : e = .handlerAuthN := regularAuth_err_kind conf p w e (by rw [hra])
      subst this
      simp [selectHandler]
    | none =>
      simp only []
      cases hg : regularGenerate conf p w1 with
      | mk w2 r2 =>
        obtain ⟨tr2, res2⟩ := r2
        cases res2 with
        | error e => simp
        | ok kc =>
          obtain ⟨k, csr⟩ := kc
          simp only []
          cases hsg : signAll k 1 w2 with
          | mk w3 r3 =>
            obtain ⟨tr3, res3⟩ := r3
            cases res3 with
            | error e => cases e <;> simp
            | ok certs =>
              simp only []
              cases hac : addCerts conf k certs w3 with
              | mk w4 r4 => obtain ⟨tr4, ok4⟩ := r4; cases ok4 <;> simp

end Ysshra.Gensign
