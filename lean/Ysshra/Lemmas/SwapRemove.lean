import Ysshra.Model.Gensign
/-
`swapRemoveAll` (x/crypto keyring's removeLocked) keeps exactly the entries that do not match.
-/
namespace Ysshra.Gensign
open Ysshra

/-- replacing index `i` by the last entry and dropping the last entry: index-wise -/
theorem swapAt_getElem? {α} (l : List α) (i : Nat) (last : α) (hi : i < l.length) (hlast : l.getLast? = some last) (t : Nat) :
    ((l.set i last).dropLast)[t]? = if t < l.length - 1 then (if t = i then some last else l[t]?) else none := by
  rw [List.dropLast_eq_take, List.getElem?_take, List.length_set]
  split
  · rw [List.getElem?_set]
    by_cases hti : t = i
    · subst hti; simp [hi]
    · have : ¬ i = t := fun e => hti e.symm
      simp [this, hti]
  · rfl

theorem getLast?_eq_getElem? {α} (l : List α) : l.getLast? = l[l.length - 1]? := by
  rw [List.getLast?_eq_getElem?]

/-- membership after the swap: exactly the entries at indices other than `i` -/
theorem mem_swapAt {α} (l : List α) (i : Nat) (last : α) (hi : i < l.length) (hlast : l.getLast? = some last) (x : α) :
    x ∈ (l.set i last).dropLast ↔ ∃ t, t ≠ i ∧ l[t]? = some x := by
  have hl : l[l.length - 1]? = some last := by rw [← getLast?_eq_getElem?]; exact hlast
  constructor
  · intro hx
    obtain ⟨t, ht⟩ := List.mem_iff_getElem?.mp hx
    rw [swapAt_getElem? l i last hi hlast t] at ht
    split at ht
    · rename_i htl
      split at ht
      · rename_i hti
        -- the entry now at `i` is the old last one, index length-1 ≠ i
        refine ⟨l.length - 1, by omega, ?_⟩
        rw [hl, ← ht]
      · rename_i hti; exact ⟨t, hti, ht⟩
    · cases ht
  · rintro ⟨t, hti, ht⟩
    rw [List.mem_iff_getElem?]
    have htl : t < l.length := by
      rcases Nat.lt_or_ge t l.length with h | h
      · exact h
      · rw [List.getElem?_eq_none h] at ht; cases ht
    by_cases hlastt : t = l.length - 1
    · -- the last entry moved to index `i`
      refine ⟨i, ?_⟩
      rw [swapAt_getElem? l i last hi hlast i, if_pos (by omega), if_pos rfl]
      rw [hlastt, hl] at ht; exact ht
    · refine ⟨t, ?_⟩
      rw [swapAt_getElem? l i last hi hlast t, if_pos (by omega), if_neg hti]; exact ht

/-- `swapRemoveAll` with enough fuel keeps exactly the non-matching entries -/
theorem mem_swapRemoveAll {α} (p : α → Bool) :
    ∀ (fuel i : Nat) (l : List α), 2 * l.length + 1 ≤ fuel + i + i → i ≤ l.length →
      (∀ j x, j < i → l[j]? = some x → p x = false) →
      ∀ x, x ∈ swapRemoveAll p fuel i l ↔ (x ∈ l ∧ p x = false) := by
  intro fuel
  induction fuel with
  | zero =>
    intro i l hf hi hinv x
    -- no fuel: then i = length, everything before i is non-matching
    have : i = l.length := by omega
    subst this
    unfold swapRemoveAll
    constructor
    · intro hx
      obtain ⟨t, ht⟩ := List.mem_iff_getElem?.mp hx
      have htl : t < l.length := by
        rcases Nat.lt_or_ge t l.length with h | h
        · exact h
        · rw [List.getElem?_eq_none h] at ht; cases ht
      exact ⟨hx, hinv t x htl ht⟩
    · exact fun h => h.1
  | succ m ih =>
    intro i l hf hi hinv x
    unfold swapRemoveAll
    cases hli : l[i]? with
    | none =>
      simp only []
      have hil : l.length ≤ i := by
        rcases Nat.lt_or_ge i l.length with h | h
        · rw [List.getElem?_eq_getElem h] at hli; cases hli
        · exact h
      constructor
      · intro hx
        obtain ⟨t, ht⟩ := List.mem_iff_getElem?.mp hx
        have htl : t < l.length := by
          rcases Nat.lt_or_ge t l.length with h | h
          · exact h
          · rw [List.getElem?_eq_none h] at ht; cases ht
        exact ⟨hx, hinv t x (by omega) ht⟩
      · exact fun h => h.1
    | some y =>
      simp only []
      have hil : i < l.length := by
        rcases Nat.lt_or_ge i l.length with h | h
        · exact h
        · rw [List.getElem?_eq_none h] at hli; cases hli
      by_cases hpy : p y = true
      · rw [if_pos hpy]
        cases hlast : l.getLast? with
        | none =>
          have : l = [] := List.getLast?_eq_none_iff.mp hlast
          subst this; simp at hil
        | some last =>
          simp only []
          have hlen' : ((l.set i last).dropLast).length = l.length - 1 := by simp
          rw [ih i _ (by rw [hlen']; omega) (by rw [hlen']; omega) ?_ x]
          · rw [mem_swapAt l i last hil hlast x]
            constructor
            · rintro ⟨⟨t, _, ht⟩, hpx⟩
              exact ⟨List.mem_iff_getElem?.mpr ⟨t, ht⟩, hpx⟩
            · rintro ⟨hx, hpx⟩
              obtain ⟨t, ht⟩ := List.mem_iff_getElem?.mp hx
              refine ⟨⟨t, ?_, ht⟩, hpx⟩
              intro e; subst e
              rw [hli] at ht; cases ht
              rw [hpy] at hpx; cases hpx
          · -- entries before `i` are unchanged
            intro j z hj hz
            rw [swapAt_getElem? l i last hil hlast j] at hz
            split at hz
            · rw [if_neg (by omega)] at hz; exact hinv j z hj hz
            · cases hz
      · rw [if_neg hpy]
        have hpy' : p y = false := by simpa using hpy
        apply ih (i + 1) l (by omega) (by omega)
        intro j z hj hz
        by_cases hji : j = i
        · subst hji; rw [hli] at hz; cases hz; exact hpy'
        · exact hinv j z (by omega) hz

theorem mem_swapRemoveAll' {α} (p : α → Bool) (l : List α) (x : α) :
    x ∈ swapRemoveAll p (2 * l.length + 1) 0 l ↔ (x ∈ l ∧ p x = false) :=
  mem_swapRemoveAll p _ 0 l (by omega) (Nat.zero_le _) (fun j _ hj => by omega) x

end Ysshra.Gensign
