import Ysshra.Model.Pkcs1
import Ysshra.Spec.C06
/-
The list-slice characterisation behind C06: a byte string of length `k` passes the comparisons
of `verifyPKCS1v15` for prefix `p` exactly when it is the canonical encoded message
`00 01 FF…FF 00 ‖ p ‖ d`.  Proof by decomposing the string into its five consecutive slices.
-/
namespace Ysshra.Pkcs1
open Ysshra Ysshra.Spec.C06

/-- the five consecutive slices of `em` for padding length `n` and prefix length `lp` -/
def parts (em : Bytes) (n lp : Nat) : Bytes × Bytes × Bytes × Bytes × Bytes :=
  (em.take 2, (em.drop 2).take n, (em.drop (2 + n)).take 1, (em.drop (3 + n)).take lp, em.drop (3 + n + lp))

theorem parts_concat (em : Bytes) (n lp : Nat) :
    em = em.take 2 ++ ((em.drop 2).take n ++ ((em.drop (2 + n)).take 1 ++ ((em.drop (3 + n)).take lp ++ em.drop (3 + n + lp)))) := by
  have h1 : em = em.take 2 ++ em.drop 2 := (List.take_append_drop 2 em).symm
  have h2 : em.drop 2 = (em.drop 2).take n ++ em.drop (2 + n) := by
    rw [← List.drop_drop]; exact (List.take_append_drop n (em.drop 2)).symm
  have h3 : em.drop (2 + n) = (em.drop (2 + n)).take 1 ++ em.drop (3 + n) := by
    have : em.drop (3 + n) = (em.drop (2 + n)).drop 1 := by rw [List.drop_drop]; congr 1; omega
    rw [this]; exact (List.take_append_drop 1 _).symm
  have h4 : em.drop (3 + n) = (em.drop (3 + n)).take lp ++ em.drop (3 + n + lp) := by
    have : em.drop (3 + n + lp) = (em.drop (3 + n)).drop lp := by rw [List.drop_drop]
    rw [this]; exact (List.take_append_drop lp _).symm
  calc em = em.take 2 ++ em.drop 2 := h1
    _ = em.take 2 ++ ((em.drop 2).take n ++ em.drop (2 + n)) := by rw [← h2]
    _ = em.take 2 ++ ((em.drop 2).take n ++ ((em.drop (2 + n)).take 1 ++ em.drop (3 + n))) := by rw [← h3]
    _ = _ := by rw [← h4]

/-- equality with the canonical message, slice by slice -/
theorem eq_canon_iff (k : Nat) (p d em : Bytes) (_hlen : em.length = k) (_hk : p.length + d.length + 3 ≤ k) :
    em = canonEM k p d ↔
      (em.take 2 = [0, 1] ∧ (em.drop 2).take (k - p.length - d.length - 3) = List.replicate (k - p.length - d.length - 3) 0xff ∧
       (em.drop (2 + (k - p.length - d.length - 3))).take 1 = [0] ∧
       (em.drop (3 + (k - p.length - d.length - 3))).take p.length = p ∧
       em.drop (3 + (k - p.length - d.length - 3) + p.length) = d) := by
  constructor
  · intro h
    subst h
    have hn : ∀ (a b c e f : Bytes) (n : Nat), a.length = 2 → b.length = n →  c.length = 1 →
        ((a ++ b ++ c ++ e ++ f).take 2 = a ∧ ((a ++ b ++ c ++ e ++ f).drop 2).take n = b ∧
         ((a ++ b ++ c ++ e ++ f).drop (2 + n)).take 1 = c ∧
         ((a ++ b ++ c ++ e ++ f).drop (3 + n)).take e.length = e ∧
         (a ++ b ++ c ++ e ++ f).drop (3 + n + e.length) = f) := by
      intro a b c e f n ha hb hc
      simp only [List.append_assoc]
      refine ⟨?_, ?_, ?_, ?_, ?_⟩
      · rw [← ha]; simp
      · rw [← ha, List.drop_left, ← hb]; simp
      · have : 2 + n = (a ++ b).length := by simp [ha, hb]
        rw [← List.append_assoc, this, List.drop_left, ← hc]; simp
      · have : 3 + n = (a ++ (b ++ c)).length := by simp [ha, hb, hc]; omega
        rw [← List.append_assoc b, ← List.append_assoc a, this, List.drop_left]; simp
      · have : 3 + n + e.length = (a ++ (b ++ (c ++ e))).length := by simp [ha, hb, hc]; omega
        rw [← List.append_assoc c, ← List.append_assoc b, ← List.append_assoc a, this, List.drop_left]
    exact hn [0, 1] (List.replicate (k - p.length - d.length - 3) 0xff) [0] p d _ rfl (by simp) rfl
  · rintro ⟨h1, h2, h3, h4, h5⟩
    rw [parts_concat em (k - p.length - d.length - 3) p.length, h1, h2, h3, h4, h5]
    simp [canonEM]

theorem canonEM_length (k : Nat) (p d : Bytes) (hk : p.length + d.length + 3 ≤ k) :
    (canonEM k p d).length = k := by
  simp [canonEM]; omega

end Ysshra.Pkcs1

namespace Ysshra.Pkcs1
open Ysshra Ysshra.Spec.C06

theorem getElem?_iff_drop_take (l : Bytes) (i : Nat) (x : UInt8) :
    l[i]? = some x ↔ (l.drop i).take 1 = [x] := by
  induction l generalizing i with
  | nil => simp
  | cons a r ih =>
    cases i with
    | zero => simp
    | succ j => simpa using ih j

theorem take2_iff (l : Bytes) (a b : UInt8) : l.take 2 = [a, b] ↔ (l[0]? = some a ∧ l[1]? = some b) := by
  match l with
  | [] => simp
  | [x] => simp
  | x :: y :: r => simp

theorem all_ff_iff (l : Bytes) (n : Nat) (h : l.length = n) :
    l.all (· == 0xff) = true ↔ l = List.replicate n 0xff := by
  rw [List.eq_replicate_iff]
  simp [h]

/-- the comparisons `verifyPKCS1v15` makes for one prefix `p` -/
def passes (k : Nat) (p d em : Bytes) : Prop :=
  em[0]? = some 0 ∧ em[1]? = some 1 ∧ slice em (k - d.length) k = some d ∧
  slice em (k - (p.length + d.length)) (k - d.length) = some p ∧
  em[k - (p.length + d.length) - 1]? = some 0 ∧
  ∃ pad, slice em 2 (k - (p.length + d.length) - 1) = some pad ∧ pad.all (· == 0xff) = true

theorem passes_iff (k : Nat) (p d em : Bytes) (hlen : em.length = k) (hk : p.length + d.length + 3 ≤ k) :
    passes k p d em ↔ em = canonEM k p d := by
  rw [eq_canon_iff k p d em hlen hk]
  have hn : 2 + (k - p.length - d.length - 3) = k - (p.length + d.length) - 1 := by omega
  have hn3 : 3 + (k - p.length - d.length - 3) = k - (p.length + d.length) := by omega
  have hn4 : k - (p.length + d.length) + p.length = k - d.length := by omega
  unfold passes slice
  rw [take2_iff, hn, hn3, hn4, ← getElem?_iff_drop_take]
  have c1 : k - d.length ≤ k ∧ k ≤ em.length := ⟨by omega, by omega⟩
  have c2 : k - (p.length + d.length) ≤ k - d.length ∧ k - d.length ≤ em.length := ⟨by omega, by omega⟩
  have c3 : 2 ≤ k - (p.length + d.length) - 1 ∧ k - (p.length + d.length) - 1 ≤ em.length := ⟨by omega, by omega⟩
  simp only [c1, c2, c3, and_self, ↓reduceIte, Option.some.injEq]
  have e1 : k - (k - d.length) = d.length := by omega
  have e2 : k - d.length - (k - (p.length + d.length)) = p.length := by omega
  have e3 : k - (p.length + d.length) - 1 - 2 = k - p.length - d.length - 3 := by omega
  rw [e1, e2, e3]
  have hl1 : (em.drop (k - d.length)).length = d.length := by simp [hlen]; omega
  have ht1 : (em.drop (k - d.length)).take d.length = em.drop (k - d.length) := by
    rw [List.take_of_length_le (by omega)]
  rw [ht1]
  have hl2 : ((em.drop 2).take (k - p.length - d.length - 3)).length = k - p.length - d.length - 3 := by
    simp [hlen]; omega
  constructor
  · rintro ⟨h0, h1, h2, h3, h4, pad, hp, hall⟩
    subst hp
    exact ⟨⟨h0, h1⟩, (all_ff_iff _ _ hl2).1 hall, h4, h3, h2⟩
  · rintro ⟨⟨h0, h1⟩, hpad, h4, h3, h2⟩
    exact ⟨h0, h1, h2, h3, h4, _, rfl, (all_ff_iff _ _ hl2).2 hpad⟩

end Ysshra.Pkcs1

namespace Ysshra.Pkcs1
open Ysshra Ysshra.Spec.C06

theorem slice_some (em : Bytes) (a b : Nat) (h1 : a ≤ b) (h2 : b ≤ em.length) :
    slice em a b = some ((em.drop a).take (b - a)) := by
  simp [slice, h1, h2]

/-- a shorter padding slice is a prefix of a longer one -/
theorem pad_prefix (em : Bytes) (b b' : Nat) (hb : b' ≤ b)
    (h : ((em.drop 2).take (b - 2)).all (· == 0xff) = true) :
    ((em.drop 2).take (b' - 2)).all (· == 0xff) = true := by
  rw [List.all_eq_true] at h ⊢
  intro x hx
  apply h
  have : (em.drop 2).take (b' - 2) = ((em.drop 2).take (b - 2)).take (b' - 2) := by
    rw [List.take_take]; congr 1; omega
  rw [this] at hx
  exact List.mem_of_mem_take hx

/-- `verifyPKCS1v15`'s comparisons never index out of range and accept exactly the strings that
    pass for the first or for the second prefix. -/
theorem verifyEM_iff (k : Nat) (p1 p2 d em : Bytes) (hlen : em.length = k)
    (hk : p1.length + d.length + 11 ≤ k) (hp : p2.length ≤ p1.length) :
    (∃ b, verifyEM k p1 p2 d em = some b) ∧
    (verifyEM k p1 p2 d em = some true ↔ (passes k p1 d em ∨ passes k p2 d em)) := by
  have h0 : ∃ e0, em[0]? = some e0 := ⟨em[0]'(by omega), List.getElem?_eq_getElem (by omega)⟩
  have h1 : ∃ e1, em[1]? = some e1 := ⟨em[1]'(by omega), List.getElem?_eq_getElem (by omega)⟩
  obtain ⟨e0, he0⟩ := h0
  obtain ⟨e1, he1⟩ := h1
  have hz1 : ∃ z1, em[k - (p1.length + d.length) - 1]? = some z1 :=
    ⟨em[k - (p1.length + d.length) - 1]'(by omega), List.getElem?_eq_getElem (by omega)⟩
  have hz2 : ∃ z2, em[k - (p2.length + d.length) - 1]? = some z2 :=
    ⟨em[k - (p2.length + d.length) - 1]'(by omega), List.getElem?_eq_getElem (by omega)⟩
  obtain ⟨z1, hz1⟩ := hz1
  obtain ⟨z2, hz2⟩ := hz2
  have hdig := slice_some em (k - d.length) k (by omega) (by omega)
  have hs1 := slice_some em (k - (p1.length + d.length)) (k - d.length) (by omega) (by omega)
  have hs2 := slice_some em (k - (p2.length + d.length)) (k - d.length) (by omega) (by omega)
  have hnot : ¬ k < p1.length + d.length + 11 := by omega
  have hnot2 : ¬ (k < p1.length + d.length + 1 ∨ k < p2.length + d.length + 1) := by omega
  -- the padding slice for either choice of `correctTLen`
  have hpad : ∀ t, t ≤ p1.length + d.length →
      slice em 2 (max 2 (k - t - 1)) = some ((em.drop 2).take (k - t - 1 - 2)) := by
    intro t ht
    have : max 2 (k - t - 1) = k - t - 1 := by omega
    rw [this]; exact slice_some em 2 (k - t - 1) (by omega) (by omega)
  unfold verifyEM
  simp only [hnot, ↓reduceIte, he0, he1, hdig, hs1, hs2, hnot2, hz1, hz2, Option.bind_eq_bind,
    Option.bind_some, Option.pure_def]
  -- case split on which prefix matched
  by_cases hp1 : ((em.drop (k - (p1.length + d.length))).take (k - d.length - (k - (p1.length + d.length))) == p1 && z1 == 0) = true
  · simp only [hp1, ↓reduceIte, hpad _ (Nat.le_refl _), Option.bind_some, Bool.true_or, Bool.and_true]
    refine ⟨⟨_, rfl⟩, ?_⟩
    simp only [Option.some.injEq, Bool.and_eq_true, beq_iff_eq] at hp1 ⊢
    constructor
    · rintro ⟨⟨⟨h00, h01⟩, hd⟩, hall⟩
      left
      exact ⟨by rw [he0, h00], by rw [he1, h01], by rw [hdig, hd], by rw [hs1, hp1.1], by rw [hz1, hp1.2],
        _, hpad _ (Nat.le_refl _) |>.trans (by congr 2 <;> omega) |> fun h => by
          have : max 2 (k - (p1.length + d.length) - 1) = k - (p1.length + d.length) - 1 := by omega
          rw [this] at h; exact h, hall⟩
    · rintro (hpass | hpass)
      · obtain ⟨a0, a1, a2, _, _, pad, hpd, hall⟩ := hpass
        rw [he0] at a0; rw [he1] at a1; rw [hdig] at a2
        have hpd' := slice_some em 2 (k - (p1.length + d.length) - 1) (by omega) (by omega)
        rw [hpd'] at hpd
        exact ⟨⟨⟨Option.some.inj a0, Option.some.inj a1⟩, Option.some.inj a2⟩, by rw [Option.some.inj hpd]; exact hall⟩
      · obtain ⟨a0, a1, a2, _, _, pad, hpd, hall⟩ := hpass
        rw [he0] at a0; rw [he1] at a1; rw [hdig] at a2
        have hpd' := slice_some em 2 (k - (p2.length + d.length) - 1) (by omega) (by omega)
        rw [hpd'] at hpd
        have hall' : ((em.drop 2).take (k - (p2.length + d.length) - 1 - 2)).all (· == 0xff) = true := by
          rw [Option.some.inj hpd]; exact hall
        exact ⟨⟨⟨Option.some.inj a0, Option.some.inj a1⟩, Option.some.inj a2⟩,
          pad_prefix em (k - (p2.length + d.length) - 1) (k - (p1.length + d.length) - 1) (by omega) hall'⟩
  · have hp1f : ((em.drop (k - (p1.length + d.length))).take (k - d.length - (k - (p1.length + d.length))) == p1 && z1 == 0) = false := by
      simpa using hp1
    by_cases hp2 : ((em.drop (k - (p2.length + d.length))).take (k - d.length - (k - (p2.length + d.length))) == p2 && z2 == 0) = true
    · simp only [hp1f, Bool.false_eq_true, ↓reduceIte, hp2, hpad _ (by omega : p2.length + d.length ≤ p1.length + d.length),
        Option.bind_some, Bool.false_or, Bool.and_true]
      refine ⟨⟨_, rfl⟩, ?_⟩
      simp only [Option.some.injEq, Bool.and_eq_true, beq_iff_eq] at hp2 ⊢
      constructor
      · rintro ⟨⟨⟨h00, h01⟩, hd⟩, hall⟩
        right
        have hpd' := slice_some em 2 (k - (p2.length + d.length) - 1) (by omega) (by omega)
        exact ⟨by rw [he0, h00], by rw [he1, h01], by rw [hdig, hd], by rw [hs2, hp2.1], by rw [hz2, hp2.2],
          _, hpd', hall⟩
      · rintro (hpass | hpass)
        · exfalso
          obtain ⟨_, _, _, a3, a4, _⟩ := hpass
          rw [hs1] at a3; rw [hz1] at a4
          simp only [Bool.and_eq_false_iff, beq_eq_false_iff_ne, ne_eq] at hp1f
          rcases hp1f with h | h
          · exact h (Option.some.inj a3)
          · exact h (Option.some.inj a4)
        · obtain ⟨a0, a1, a2, _, _, pad, hpd, hall⟩ := hpass
          rw [he0] at a0; rw [he1] at a1; rw [hdig] at a2
          have hpd' := slice_some em 2 (k - (p2.length + d.length) - 1) (by omega) (by omega)
          rw [hpd'] at hpd
          exact ⟨⟨⟨Option.some.inj a0, Option.some.inj a1⟩, Option.some.inj a2⟩, by rw [Option.some.inj hpd]; exact hall⟩
    · have hp2f : ((em.drop (k - (p2.length + d.length))).take (k - d.length - (k - (p2.length + d.length))) == p2 && z2 == 0) = false := by
        simpa using hp2
      have h00 : slice em 2 (max 2 (k - 0 - 1)) = some ((em.drop 2).take (k - 0 - 1 - 2)) := hpad 0 (by omega)
      simp only [hp1f, hp2f, Bool.false_eq_true, ↓reduceIte, h00, Option.bind_some, Bool.or_self, Bool.and_false,
        Bool.false_and]
      refine ⟨⟨_, rfl⟩, ?_⟩
      simp only [Option.some.injEq, Bool.false_eq_true, false_iff, not_or]
      constructor
      · rintro ⟨_, _, _, a3, a4, _⟩
        rw [hs1] at a3; rw [hz1] at a4
        simp only [Bool.and_eq_false_iff, beq_eq_false_iff_ne, ne_eq] at hp1f
        rcases hp1f with h | h
        · exact h (Option.some.inj a3)
        · exact h (Option.some.inj a4)
      · rintro ⟨_, _, _, a3, a4, _⟩
        rw [hs2] at a3; rw [hz2] at a4
        simp only [Bool.and_eq_false_iff, beq_eq_false_iff_ne, ne_eq] at hp2f
        rcases hp2f with h | h
        · exact h (Option.some.inj a3)
        · exact h (Option.some.inj a4)

end Ysshra.Pkcs1
