import Ysshra.Model.Message
import Ysshra.Lemmas.Text
/-
Lemmas for the legacy (space-separated) message format: trimming is the identity on the tokens the
encoder writes, splitting undoes joining, later-duplicates-win folding over distinct keys keeps the
list, and decimal integers read back.
-/
namespace Ysshra.Text
open Ysshra

/-- a byte that occurs in no white-space sequence (`=`, `@`, letters, digits …) -/
def SepByte (c : UInt8) : Prop := ∀ p ∈ spaceSeqs, c ∉ p

instance (c : UInt8) : Decidable (SepByte c) := by unfold SepByte; infer_instance

/-- values the round trip is stated for: no space byte anywhere and no white-space sequence at the
    end (implied by "free of white space") -/
def NoSp (v : Bytes) : Prop := 0x20 ∉ v ∧ ∀ p ∈ spaceSeqs, ¬ p <:+ v

theorem spaceSeqs_ne_nil : ∀ p ∈ spaceSeqs, p ≠ [] := by decide

theorem stripSpacePrefix_none_iff (s : Bytes) :
    stripSpacePrefix s = none ↔ ∀ p ∈ spaceSeqs, ¬ p <+: s := by
  unfold stripSpacePrefix
  rw [List.findSome?_eq_none_iff]
  constructor
  · intro h p hp hpre
    have := h p hp
    rw [if_pos (List.isPrefixOf_iff_prefix.mpr hpre)] at this
    cases this
  · intro h p hp
    have : ¬ p.isPrefixOf s = true := fun e => h p hp (List.isPrefixOf_iff_prefix.mp e)
    simp [this]

theorem stripSpaceSuffix_none_iff (s : Bytes) :
    stripSpaceSuffix s = none ↔ ∀ p ∈ spaceSeqs, ¬ p <:+ s := by
  unfold stripSpaceSuffix
  rw [List.findSome?_eq_none_iff]
  constructor
  · intro h p hp hsuf
    have := h p hp
    have hpre : p.reverse.isPrefixOf s.reverse = true :=
      List.isPrefixOf_iff_prefix.mpr (List.reverse_prefix.mpr hsuf)
    rw [if_pos hpre] at this
    cases this
  · intro h p hp
    have : ¬ p.reverse.isPrefixOf s.reverse = true := fun e =>
      h p hp (List.reverse_prefix.mp (List.isPrefixOf_iff_prefix.mp e))
    simp [this]

theorem trimLeft_id (n : Nat) (s : Bytes) (h : stripSpacePrefix s = none) : trimLeft n s = s := by
  cases n <;> simp [trimLeft, h]

theorem trimRight_id (n : Nat) (s : Bytes) (h : stripSpaceSuffix s = none) : trimRight n s = s := by
  cases n <;> simp [trimRight, h]

theorem trimSpace_id (s : Bytes) (h1 : stripSpacePrefix s = none) (h2 : stripSpaceSuffix s = none) :
    trimSpace s = s := by
  unfold trimSpace; rw [trimLeft_id _ _ h1, trimRight_id _ _ h2]

/-- a token whose first byte occurs in no white-space sequence has no white-space prefix -/
theorem no_prefix_of_sepByte (c : UInt8) (r : Bytes) (hc : SepByte c) :
    stripSpacePrefix (c :: r) = none := by
  rw [stripSpacePrefix_none_iff]
  intro p hp hpre
  obtain ⟨t, ht⟩ := hpre
  cases p with
  | nil => exact spaceSeqs_ne_nil [] hp rfl
  | cons d p' =>
    simp only [List.cons_append, List.cons.injEq] at ht
    exact hc (d :: p') hp (by rw [ht.1]; simp)

/-- `pre ++ v`: if `pre` ends in a byte outside all white-space sequences and `v` has no
    white-space suffix, the whole has none -/
theorem no_suffix_append (pre v : Bytes) (c : UInt8) (hc : SepByte c)
    (hv : ∀ p ∈ spaceSeqs, ¬ p <:+ v) : ∀ p ∈ spaceSeqs, ¬ p <:+ (pre ++ c :: v) := by
  intro p hp hsuf
  have hvs : v <:+ (pre ++ c :: v) := ⟨pre ++ [c], by simp⟩
  rcases Nat.le_total p.length v.length with hle | hle
  · exact hv p hp (List.suffix_of_suffix_length_le hsuf hvs hle)
  · -- `c :: v` or more is a suffix of `p`: then `c ∈ p`
    have hcv : (c :: v) <:+ (pre ++ c :: v) := ⟨pre, rfl⟩
    rcases Nat.lt_or_ge v.length p.length with hlt | hge
    · have : (c :: v) <:+ p := List.suffix_of_suffix_length_le hcv hsuf (by simp; omega)
      obtain ⟨t, ht⟩ := this
      exact hc p hp (by rw [← ht]; simp)
    · have hlen : p.length = v.length := by omega
      have : p <:+ v := List.suffix_of_suffix_length_le hsuf hvs (by omega)
      exact hv p hp this

end Ysshra.Text

namespace Ysshra.Text
open Ysshra

/-! ### decimal integers read back -/

theorem digitsVal_append (xs : Bytes) (d : UInt8) :
    digitsVal (xs ++ [d]) = digitsVal xs * 10 + (d.toNat - 48) := by
  simp [digitsVal, List.foldl_append]

theorem ofNat_digit (k : Nat) (h : k < 10) : (UInt8.ofNat (48 + k)).toNat = 48 + k := by
  have : k = 0 ∨ k = 1 ∨ k = 2 ∨ k = 3 ∨ k = 4 ∨ k = 5 ∨ k = 6 ∨ k = 7 ∨ k = 8 ∨ k = 9 := by omega
  rcases this with h | h | h | h | h | h | h | h | h | h <;> subst h <;> decide

theorem isDigit_ofNat (k : Nat) (h : k < 10) : isDigit (UInt8.ofNat (48 + k)) = true := by
  unfold isDigit
  rw [ofNat_digit k h]
  simp only [Bool.and_eq_true, decide_eq_true_eq]
  omega

theorem natDigits_spec (fuel n : Nat) (h : n < fuel) :
    natDigits fuel n ≠ [] ∧ (natDigits fuel n).all isDigit = true ∧ digitsVal (natDigits fuel n) = n := by
  induction fuel generalizing n with
  | zero => omega
  | succ f ih =>
    unfold natDigits
    split
    · rename_i hlt
      refine ⟨List.cons_ne_nil _ _, ?_, ?_⟩
      · rw [List.all_cons, List.all_nil, Bool.and_true]; exact isDigit_ofNat n hlt
      · unfold digitsVal
        rw [List.foldl_cons, List.foldl_nil, ofNat_digit n hlt]; omega
    · rename_i hge
      have hd : n / 10 < f := by omega
      obtain ⟨h1, h2, h3⟩ := ih (n / 10) hd
      have hm : n % 10 < 10 := Nat.mod_lt _ (by omega)
      refine ⟨?_, ?_, ?_⟩
      · intro e; exact absurd (List.append_eq_nil_iff.mp e).2 (List.cons_ne_nil _ _)
      · rw [List.all_append, h2, List.all_cons, List.all_nil, Bool.and_true, Bool.true_and]
        exact isDigit_ofNat _ hm
      · rw [digitsVal_append, h3, ofNat_digit _ hm]; omega

theorem natDec_spec (n : Nat) :
    natDec n ≠ [] ∧ (natDec n).all isDigit = true ∧ digitsVal (natDec n) = n :=
  natDigits_spec (n + 1) n (by omega)

theorem parseIntLoose_intDec (i : Int) (h : -(2 ^ 63 : Int) ≤ i ∧ i < 2 ^ 63) :
    parseIntLoose (intDec i) = i := by
  obtain ⟨hne, hall, hval⟩ := natDec_spec i.natAbs
  unfold intDec
  split
  · rename_i hneg
    unfold parseIntLoose
    simp only []
    have hemp : (natDec i.natAbs).isEmpty = false := by
      cases hd : natDec i.natAbs with
      | nil => exact absurd hd hne
      | cons _ _ => rfl
    simp only [hemp, hall, Bool.false_or, Bool.not_true, Bool.false_eq_true, ↓reduceIte, hval]
    have : ¬ i.natAbs > 2 ^ 63 := by omega
    simp only [this, ↓reduceIte]
    omega
  · rename_i hpos
    -- the first byte is a digit, so neither sign pattern applies
    cases hd : natDec i.natAbs with
    | nil => exact absurd hd hne
    | cons c r =>
      have hall' : (c :: r).all isDigit = true := by rw [← hd]; exact hall
      have hval' : digitsVal (c :: r) = i.natAbs := by rw [← hd]; exact hval
      have hc : isDigit c = true := by
        simp only [List.all_cons, Bool.and_eq_true] at hall'; exact hall'.1
      have h1 : c ≠ 0x2d := by intro e; subst e; revert hc; decide
      have h2 : c ≠ 0x2b := by intro e; subst e; revert hc; decide
      have hbig : ¬ i.natAbs ≥ 2 ^ 63 := by omega
      unfold parseIntLoose
      split
      rename_i x neg ds heq
      have hm : (neg, ds) = (false, c :: r) := by
        rw [← heq]
        split
        · rename_i he; simp only [List.cons.injEq] at he; exact absurd he.1 h1
        · rename_i he; simp only [List.cons.injEq] at he; exact absurd he.1 h2
        · rfl
      simp only [Prod.mk.injEq] at hm
      obtain ⟨rfl, rfl⟩ := hm
      simp only [List.isEmpty_cons, hall', Bool.false_or, Bool.not_true, Bool.false_eq_true, ↓reduceIte, hval', hbig]
      omega

end Ysshra.Text

namespace Ysshra.Message
open Ysshra Ysshra.Text

/-- a token as the encoder writes it: trimming leaves it alone, it is not empty and holds no space -/
def WF (tok : Bytes) : Prop := trimSpace tok = tok ∧ tok.isEmpty = false ∧ 0x20 ∉ tok

instance (tok : Bytes) : Decidable (WF tok) := by unfold WF; infer_instance

theorem sep_eq : SepByte 0x3d := by decide
theorem sep_at : SepByte 0x40 := by decide

/-- `key=value` with a key that starts with a byte outside every white-space sequence -/
theorem wf_kv (c0 : UInt8) (k' v : Bytes) (hc0 : SepByte c0) (hk : 0x20 ∉ c0 :: k') (hv : NoSp v) :
    WF ((c0 :: k') ++ 0x3d :: v) := by
  refine ⟨?_, rfl, ?_⟩
  · apply trimSpace_id
    · exact no_prefix_of_sepByte c0 _ hc0
    · rw [stripSpaceSuffix_none_iff]; exact no_suffix_append (c0 :: k') v 0x3d sep_eq hv.2
  · intro h
    rcases List.mem_append.mp h with h | h
    · exact hk h
    · simp only [List.mem_cons] at h
      rcases h with h | h
      · revert h; decide
      · exact hv.1 h

theorem parseToken_kv (k v : Bytes) (hk : 0x3d ∉ k) : parseToken (k ++ 0x3d :: v) = (k, v) := by
  unfold parseToken; rw [cutAt_append 0x3d k v hk]

theorem foldl_tokens (toks : List Bytes) (m : List (Bytes × Bytes)) (h : ∀ t ∈ toks, WF t) :
    toks.foldl (fun m tok =>
      let t := trimSpace tok
      if t.isEmpty then m else let (k, v) := parseToken t; mapSet m k v) m =
    toks.foldl (fun m t => mapSet m (parseToken t).1 (parseToken t).2) m := by
  induction toks generalizing m with
  | nil => rfl
  | cons t r ih =>
    obtain ⟨h1, h2, _⟩ := h t (by simp)
    simp only [List.foldl_cons, h1, h2, Bool.false_eq_true, ↓reduceIte]
    exact ih _ (fun x hx => h x (List.mem_cons_of_mem _ hx))

theorem parseAttrsLegacy_join (toks : List Bytes) (hne : toks ≠ []) (h : ∀ t ∈ toks, WF t) :
    parseAttrsLegacy (joinWith 0x20 toks) =
      toks.foldl (fun m t => mapSet m (parseToken t).1 (parseToken t).2) [] := by
  unfold parseAttrsLegacy
  rw [splitOn_joinWith 0x20 toks hne (fun x hx => (h x hx).2.2)]
  exact foldl_tokens toks [] h

theorem foldl_mapSet_pairs (l pre : List (Bytes × Bytes))
    (h : ((pre ++ l).map (·.1)).Nodup) :
    l.foldl (fun acc p => mapSet acc p.1 p.2) pre = pre ++ l := by
  induction l generalizing pre with
  | nil => simp
  | cons p r ih =>
    simp only [List.foldl_cons]
    have hfilter : mapSet pre p.1 p.2 = pre ++ [p] := by
      unfold mapSet
      have : pre.filter (fun q => decide (q.1 ≠ p.1)) = pre := by
        apply List.filter_eq_self.2
        intro q hq
        simp only [List.map_append, List.map_cons] at h
        have := (List.nodup_append.1 h).2.2 q.1 (List.mem_map_of_mem hq) p.1 (by simp)
        simpa using this
      rw [this]
    rw [hfilter]
    have h' : (((pre ++ [p]) ++ r).map (·.1)).Nodup := by simpa using h
    rw [ih (pre ++ [p]) h']; simp

theorem foldl_parse_eq (toks : List Bytes) (h : ((toks.map parseToken).map (·.1)).Nodup) :
    toks.foldl (fun m t => mapSet m (parseToken t).1 (parseToken t).2) [] = toks.map parseToken := by
  have := foldl_mapSet_pairs (toks.map parseToken) [] (by simpa using h)
  rw [List.foldl_map] at this
  simpa using this

end Ysshra.Message

namespace Ysshra.Message
open Ysshra Ysshra.Text

/-- the (key, value) pairs of the tokens `MarshalLegacy` writes -/
def legacyPairs (a : AttrsB) : List (Bytes × Bytes) :=
  [(kIFVer, b!"6"), (kVersion, a.SSHClientVersion), (kReq, a.Username ++ 0x40 :: a.Hostname)] ++
  (if a.HardKey then [(kHardKey, b!"true")] else []) ++
  (if a.Touch2SSH then [(kTouch2SSH, b!"true")] else []) ++
  (match a.TouchlessSudo with
   | none => []
   | some t =>
     (if t.IsFirefighter then [(kIsFirefighter, b!"true")] else []) ++
     (if t.Hosts.isEmpty then [] else [(kHosts, t.Hosts)]) ++
     (if t.Time = 0 then [] else [(kTime, intDec t.Time)]))

theorem pt_ifver : parseToken legacyInterfaceVersion = (kIFVer, b!"6") := by decide
theorem pt_hard : parseToken (kHardKey ++ b!"=true") = (kHardKey, b!"true") := by decide
theorem pt_t2s : parseToken (kTouch2SSH ++ b!"=true") = (kTouch2SSH, b!"true") := by decide
theorem pt_ff : parseToken (kIsFirefighter ++ b!"=true") = (kIsFirefighter, b!"true") := by decide

theorem legacyTokens_pairs (a : AttrsB) : (legacyTokens a).map parseToken = legacyPairs a := by
  unfold legacyTokens legacyPairs
  have e1 : parseToken (kVersion ++ 0x3d :: a.SSHClientVersion) = (kVersion, a.SSHClientVersion) :=
    parseToken_kv _ _ (by decide)
  have e2 : parseToken (kReq ++ 0x3d :: (a.Username ++ 0x40 :: a.Hostname)) = (kReq, a.Username ++ 0x40 :: a.Hostname) :=
    parseToken_kv _ _ (by decide)
  cases a.HardKey <;> cases a.Touch2SSH <;> cases a.TouchlessSudo with
  | none => simp [pt_ifver, e1, e2, pt_hard, pt_t2s]
  | some t =>
    have e3 : parseToken (kHosts ++ 0x3d :: t.Hosts) = (kHosts, t.Hosts) := parseToken_kv _ _ (by decide)
    have e4 : parseToken (kTime ++ 0x3d :: intDec t.Time) = (kTime, intDec t.Time) := parseToken_kv _ _ (by decide)
    cases hf : t.IsFirefighter <;> by_cases hh : t.Hosts.isEmpty <;> by_cases ht : t.Time = 0 <;>
      simp [pt_ifver, e1, e2, pt_hard, pt_t2s, pt_ff, e3, e4, hh, ht, hf]

end Ysshra.Message

namespace Ysshra.Message
open Ysshra Ysshra.Text

theorem noSp_req (u h : Bytes) (hu : NoSp u) (hh : NoSp h) : NoSp (u ++ 0x40 :: h) := by
  refine ⟨?_, no_suffix_append u h 0x40 sep_at hh.2⟩
  intro hm
  rcases List.mem_append.mp hm with hm | hm
  · exact hu.1 hm
  · simp only [List.mem_cons] at hm
    rcases hm with hm | hm
    · revert hm; decide
    · exact hh.1 hm

theorem noSp_intDec (i : Int) : NoSp (intDec i) := by
  -- digits and the sign are outside every white-space sequence
  have hd : ∀ c ∈ natDec i.natAbs, isDigit c = true := by
    have := (natDec_spec i.natAbs).2.1
    exact fun c hc => List.all_eq_true.mp this c hc
  have hall : ∀ c ∈ intDec i, c = 0x2d ∨ isDigit c = true := by
    intro c hc
    unfold intDec at hc
    split at hc
    · simp only [List.mem_cons] at hc
      rcases hc with hc | hc
      · exact .inl hc
      · exact .inr (hd c hc)
    · exact .inr (hd c hc)
  have hnd : ∀ p ∈ spaceSeqs, ∀ b ∈ p, isDigit b = false := by decide
  have hsep : ∀ c, (c = 0x2d ∨ isDigit c = true) → SepByte c := by
    intro c hc
    rcases hc with rfl | hc
    · decide
    · intro p hp hcp
      have := hnd p hp c hcp
      rw [hc] at this; cases this
  constructor
  · intro hm
    have := hsep _ (hall _ hm) [0x20] (by decide)
    exact this (by simp)
  · intro p hp hsuf
    cases hlast : p.getLast? with
    | none => exact spaceSeqs_ne_nil p hp (List.getLast?_eq_none_iff.mp hlast)
    | some c =>
      have hcp : c ∈ p := List.mem_of_getLast? hlast
      obtain ⟨t, ht⟩ := hsuf
      have hci : c ∈ intDec i := by rw [← ht]; exact List.mem_append_right _ hcp
      exact hsep c (hall c hci) p hp hcp

theorem wf_tokens (a : AttrsB) (hv : NoSp a.SSHClientVersion) (hu : NoSp a.Username) (hh : NoSp a.Hostname)
    (hts : ∀ t, a.TouchlessSudo = some t → NoSp t.Hosts) : ∀ tok ∈ legacyTokens a, WF tok := by
  have wIF : WF legacyInterfaceVersion := by decide
  have wH : WF (kHardKey ++ b!"=true") := by decide
  have wT : WF (kTouch2SSH ++ b!"=true") := by decide
  have wF : WF (kIsFirefighter ++ b!"=true") := by decide
  have wV : WF (kVersion ++ 0x3d :: a.SSHClientVersion) := wf_kv _ _ _ (by decide) (by decide) hv
  have wR : WF (kReq ++ 0x3d :: (a.Username ++ 0x40 :: a.Hostname)) :=
    wf_kv _ _ _ (by decide) (by decide) (noSp_req _ _ hu hh)
  intro tok htok
  unfold legacyTokens at htok
  simp only [List.mem_append, List.mem_cons, List.not_mem_nil, or_false] at htok
  rcases htok with ((htok | htok) | htok) | htok
  · rcases htok with rfl | rfl | rfl
    · exact wIF
    · exact wV
    · exact wR
  · split at htok
    · simp only [List.mem_cons, List.not_mem_nil, or_false] at htok; subst htok; exact wH
    · cases htok
  · split at htok
    · simp only [List.mem_cons, List.not_mem_nil, or_false] at htok; subst htok; exact wT
    · cases htok
  · split at htok
    · cases htok
    · rename_i t heq
      have wHo : WF (kHosts ++ 0x3d :: t.Hosts) := wf_kv _ _ _ (by decide) (by decide) (hts t heq)
      have wTi : WF (kTime ++ 0x3d :: intDec t.Time) := wf_kv _ _ _ (by decide) (by decide) (noSp_intDec _)
      simp only [List.mem_append] at htok
      rcases htok with (htok | htok) | htok
      · split at htok
        · simp only [List.mem_cons, List.not_mem_nil, or_false] at htok; subst htok; exact wF
        · cases htok
      · split at htok
        · cases htok
        · simp only [List.mem_cons, List.not_mem_nil, or_false] at htok; subst htok; exact wHo
      · split at htok
        · cases htok
        · simp only [List.mem_cons, List.not_mem_nil, or_false] at htok; subst htok; exact wTi

theorem legacyPairs_nodup (a : AttrsB) : ((legacyPairs a).map (·.1)).Nodup := by
  unfold legacyPairs
  cases a.HardKey <;> cases a.Touch2SSH <;> cases a.TouchlessSudo with
  | none => simp <;> decide
  | some t =>
    cases hf : t.IsFirefighter <;> by_cases hh : t.Hosts.isEmpty <;> by_cases ht : t.Time = 0 <;>
      simp [hh, ht, hf] <;> decide

end Ysshra.Message
