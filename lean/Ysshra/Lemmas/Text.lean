import Ysshra.Model.Text
namespace Ysshra.Text

theorem cutAt_spec (b : UInt8) (s k v : Bytes) (h : cutAt b s = some (k, v)) :
    s = k ++ b :: v ∧ b ∉ k := by
  induction s generalizing k v with
  | nil => simp [cutAt] at h
  | cons c r ih =>
    simp only [cutAt] at h
    split at h
    · rename_i hc
      simp at h; obtain ⟨rfl, rfl⟩ := h; simp [hc]
    · rename_i hc
      cases hr : cutAt b r with
      | none => simp [hr] at h
      | some p =>
        obtain ⟨k', v'⟩ := p
        simp [hr] at h
        obtain ⟨rfl, rfl⟩ := h
        obtain ⟨h1, h2⟩ := ih k' v' hr
        refine ⟨by simp [h1], ?_⟩
        simp only [List.mem_cons, not_or]
        exact ⟨fun e => hc e.symm, h2⟩

theorem cutAt_append (b : UInt8) (k v : Bytes) (h : b ∉ k) : cutAt b (k ++ b :: v) = some (k, v) := by
  induction k with
  | nil => simp [cutAt]
  | cons c r ih =>
    simp only [List.mem_cons, not_or] at h
    have hc : ¬ c = b := fun e => h.1 e.symm
    simp [cutAt, hc, ih h.2]

theorem cutAt_none (b : UInt8) (s : Bytes) (h : b ∉ s) : cutAt b s = none := by
  induction s with
  | nil => rfl
  | cons c r ih =>
    simp only [List.mem_cons, not_or] at h
    have hc : ¬ c = b := fun e => h.1 e.symm
    simp [cutAt, hc, ih h.2]

theorem parseUint_lt (bits : Nat) (s : Bytes) (v : Nat) (h : parseUint bits s = some v) :
    v < 2 ^ bits ∧ s ≠ [] ∧ s.all isDigit = true ∧ v = digitsVal s := by
  unfold parseUint at h
  split at h
  · cases h
  · rename_i hc
    simp only [Bool.or_eq_true, not_or, Bool.not_eq_true'] at hc
    simp only at h
    split at h
    · rename_i hlt
      cases h
      refine ⟨hlt, ?_, ?_, rfl⟩
      · intro e; simp [e] at hc
      · simpa using hc.2
    · cases h

theorem hexDigit_lower (n : Nat) (h : n < 16) :
    let c := (hexDigit n).toNat
    (48 ≤ c ∧ c ≤ 57) ∨ (97 ≤ c ∧ c ≤ 102) := by
  have : n = 0 ∨ n = 1 ∨ n = 2 ∨ n = 3 ∨ n = 4 ∨ n = 5 ∨ n = 6 ∨ n = 7 ∨ n = 8 ∨ n = 9 ∨ n = 10 ∨
      n = 11 ∨ n = 12 ∨ n = 13 ∨ n = 14 ∨ n = 15 := by omega
  rcases this with h | h | h | h | h | h | h | h | h | h | h | h | h | h | h | h <;> subst h <;> decide

end Ysshra.Text

namespace Ysshra.Text

theorem splitOn_ne_nil (sep : UInt8) (s : Bytes) : splitOn sep s ≠ [] := by
  induction s with
  | nil => simp [splitOn]
  | cons c r ih =>
    simp only [splitOn]
    split
    · simp
    · split <;> simp

/-- splitting a separator-free field followed by the separator and more text -/
theorem splitOn_field (sep : UInt8) (x rest : Bytes) (hx : sep ∉ x) :
    splitOn sep (x ++ sep :: rest) = x :: splitOn sep rest := by
  induction x with
  | nil => simp [splitOn]
  | cons c r ih =>
    simp only [List.mem_cons, not_or] at hx
    have hc : ¬ c = sep := fun e => hx.1 e.symm
    simp only [List.cons_append, splitOn, hc, ↓reduceIte, ih hx.2]

theorem splitOn_single (sep : UInt8) (x : Bytes) (hx : sep ∉ x) : splitOn sep x = [x] := by
  induction x with
  | nil => simp [splitOn]
  | cons c r ih =>
    simp only [List.mem_cons, not_or] at hx
    have hc : ¬ c = sep := fun e => hx.1 e.symm
    simp only [splitOn, hc, ↓reduceIte, ih hx.2]

/-- `strings.Split(strings.Join(l, sep), sep) = l` for a non-empty list of separator-free fields -/
theorem splitOn_joinWith (sep : UInt8) (l : List Bytes) (hne : l ≠ []) (h : ∀ x ∈ l, sep ∉ x) :
    splitOn sep (joinWith sep l) = l := by
  induction l with
  | nil => exact absurd rfl hne
  | cons x r ih =>
    cases r with
    | nil => simpa [joinWith] using splitOn_single sep x (h x (by simp))
    | cons y r' =>
      simp only [joinWith]
      rw [splitOn_field sep x _ (h x (by simp))]
      rw [ih (by simp) (fun z hz => h z (List.mem_cons_of_mem _ hz))]

end Ysshra.Text
