import Ysshra.Lemmas.ShimArr
/-
Without faults of the underlying agent, the slice `filter` works on and the underlying agent's
own identities stay the same set through every call of the `remove` closure: what is swap-removed
from the slice is removed from the agent and vice versa.
-/
namespace Ysshra.Shim
open Ysshra

/-- swap-removal keeps every entry with another blob -/
theorem swapRemove_keeps (ka : KeyArr) (b : Blob) (hwf : ka.WF) (x : Ident) (hx : x ∈ ka.live) (hb : x.blob ≠ b) :
    x ∈ (swapRemove ka b).live := by
  cases hj : ka.live.findIdx? (·.blob = b) with
  | none => rw [swapRemove_notfound ka b hj]; exact hx
  | some j =>
    obtain ⟨last, hlast, hjlen, _, hget⟩ := swapRemove_found ka b j hwf hj
    obtain ⟨hjl, hpj, _⟩ := List.findIdx?_eq_some_iff_getElem.mp hj
    have hbj : ka.live[j].blob = b := by simpa using hpj
    obtain ⟨t, ht⟩ := List.mem_iff_getElem?.mp hx
    rw [live_getElem?] at ht
    split at ht
    · rename_i htl
      have htj : t ≠ j := by
        intro e; subst e
        have : ka.live[t]? = some x := by rw [live_getElem?, if_pos htl]; exact ht
        rw [List.getElem?_eq_getElem hjl] at this
        have := Option.some.inj this
        rw [this] at hbj; exact hb hbj
      rw [List.mem_iff_getElem?]
      by_cases hlt : t = ka.len - 1
      · -- the last entry moved to index j
        refine ⟨j, ?_⟩
        rw [hget j, if_pos (by omega), if_pos rfl]
        rw [hlt] at ht; rw [← ht]; exact hlast.symm ▸ rfl
      · refine ⟨t, ?_⟩
        rw [hget t, if_pos (by omega), if_neg htj]; exact ht
    · cases ht

/-- the slice mirrors an open, unlocked underlying agent -/
structure Sync (s : State) (ka : KeyArr) : Prop where
  closed : s.u.closed = false
  locked : s.u.locked = false
  wf : ka.WF
  distinct : Distinct ka.live
  same : ∀ x, x ∈ s.u.idents ↔ x ∈ ka.live

theorem mem_of_any_blob (l : List Ident) (b : Blob) (h : l.any (·.blob = b) = true) : ∃ x ∈ l, x.blob = b := by
  simp only [List.any_eq_true, decide_eq_true_eq] at h; exact h

theorem removeFn_sync (s : State) (ka : KeyArr) (b : Blob) (h : Sync s ka) :
    Sync (removeFn s noFaults ka b).1 (removeFn s noFaults ka b).2.1 := by
  -- what the underlying agent does with the request
  have hgate : s.u.gate noFaults .remove = (s.u, true) := by
    unfold UAgent.gate; simp [h.closed, noFaults]
  by_cases hin : s.u.idents.any (·.blob = b) = true
  · -- the agent holds it: removed from both
    have hrm : s.u.remove noFaults b = ({ s.u with idents := s.u.idents.filter (·.blob ≠ b) }, true) := by
      unfold UAgent.remove; rw [hgate]; simp [UAgent.removeIdent, h.locked, hin]
    have hcore : ∃ s', removeCore s noFaults b = (s', true) ∧
        s'.u = { s.u with idents := s.u.idents.filter (·.blob ≠ b) } := by
      unfold removeCore
      cases b with
      | key k => simp only []; rw [hrm]; exact ⟨_, rfl, by simp [dropCache_u]⟩
      | cert c =>
        simp only []
        have : ({ s with certs := s.certs.filter (·.cert ≠ c) } : State).u = s.u := rfl
        rw [this, hrm]
        exact ⟨_, rfl, by simp [dropCache_u]⟩
    obtain ⟨s', hc, hu⟩ := hcore
    have hok : (removeFn s noFaults ka b).2.2 = true := by
      unfold removeFn; rw [hc]; simp only []; split
      · rfl
      · split <;> rfl
    have hs : (removeFn s noFaults ka b).1 = s' := by
      unfold removeFn; rw [hc]; simp only []; split
      · rfl
      · split <;> rfl
    rw [removeFn_arr_ok s noFaults ka b hok, hs]
    obtain ⟨hd', hnb⟩ := swapRemove_distinct ka b h.wf h.distinct
    refine ⟨by rw [hu]; exact h.closed, by rw [hu]; exact h.locked, swapRemove_wf ka b h.wf, hd', ?_⟩
    intro x
    rw [hu]
    simp only [List.mem_filter, ne_eq, decide_not, Bool.not_eq_eq_eq_not, Bool.not_true, decide_eq_false_iff_not]
    constructor
    · rintro ⟨hx, hxb⟩; exact swapRemove_keeps ka b h.wf x ((h.same x).mp hx) hxb
    · intro hx; exact ⟨(h.same x).mpr (swapRemove_sub ka b h.wf x hx), hnb x hx⟩
  · -- the agent does not hold it: the request fails there, and the slice does not hold it either
    have hrm : s.u.remove noFaults b = (s.u, false) := by
      unfold UAgent.remove; rw [hgate]; simp [UAgent.removeIdent, h.locked, hin]
    have hnot : ka.live.findIdx? (·.blob = b) = none := by
      rw [List.findIdx?_eq_none_iff]
      intro x hx
      have hxu := (h.same x).mpr hx
      simp only [decide_eq_false_iff_not]
      intro hxb
      exact hin (by simp only [List.any_eq_true, decide_eq_true_eq]; exact ⟨x, hxu, hxb⟩)
    have hu : (removeFn s noFaults ka b).1.u = s.u := by
      rw [removeFn_state]
      unfold removeCore
      cases b with
      | key k => simp only []; rw [hrm]; simp
      | cert c =>
        simp only []
        have : ({ s with certs := s.certs.filter (·.cert ≠ c) } : State).u = s.u := rfl
        rw [this, hrm]
        simp only []
        by_cases hm : hasCert s c = true
        · simp [hm, dropCache_u]
        · simp [hm]
    have hka : (removeFn s noFaults ka b).2.1 = ka := by
      cases hok : (removeFn s noFaults ka b).2.2 with
      | false => exact removeFn_arr_fail s noFaults ka b hok
      | true => rw [removeFn_arr_ok s noFaults ka b hok, swapRemove_notfound ka b hnot]
    rw [hka]
    exact ⟨by rw [hu]; exact h.closed, by rw [hu]; exact h.locked, h.wf, h.distinct, by rw [hu]; exact h.same⟩

end Ysshra.Shim

namespace Ysshra.Shim
open Ysshra

theorem foldl_sync {α} (cond : α → Bool) (blob : α → Blob) (l : List α) (s : State) (ka : KeyArr) (h : Sync s ka) :
    let r := l.foldl (fun (acc : State × KeyArr) x =>
      if cond x then acc else let (s', ka', _) := removeFn acc.1 noFaults acc.2 (blob x); (s', ka')) (s, ka)
    Sync r.1 r.2 := by
  induction l generalizing s ka with
  | nil => exact h
  | cons x r ih =>
    simp only [List.foldl_cons]
    split
    · exact ih s ka h
    · exact ih _ _ (removeFn_sync s ka (blob x) h)

theorem filterOrphans_sync (s : State) (ka : KeyArr) (h : Sync s ka) :
    Sync (filterOrphans s noFaults ka).1 (filterOrphans s noFaults ka).2 := by
  unfold filterOrphans
  simp only []
  split
  · exact h
  · exact foldl_sync (fun mc => (List.map (fun x => x.blob.pub) (List.take ka.len ka.arr)).contains mc.cert.key)
      (fun mc => .cert mc.cert) s.certs s ka h

theorem expiredInMemory_sync (now : Nat) (s : State) (ka : KeyArr) (h : Sync s ka) :
    Sync (expiredInMemory now noFaults s ka).1 (expiredInMemory now noFaults s ka).2 := by
  unfold expiredInMemory
  exact foldl_sync (fun mc => validAt mc.cert now) (fun mc => .cert mc.cert) s.certs s ka h

theorem expiredInAgent_sync (now : Nat) :
    ∀ fuel i s ka err, Sync s ka →
      Sync (expiredInAgent now noFaults fuel i s ka err).1 (expiredInAgent now noFaults fuel i s ka err).2.1 := by
  intro fuel
  induction fuel with
  | zero => intro i s ka err h; exact h
  | succ m ih =>
    intro i s ka err h
    unfold expiredInAgent
    split
    · exact h
    · split
      · split
        · exact ih _ _ _ _ h
        · exact ih _ _ _ _ (removeFn_sync s ka _ h)
      · exact ih _ _ _ _ h

end Ysshra.Shim
