import Ysshra.Model.Message
import Ysshra.Lemmas.KeyId
namespace Ysshra.Message
open Ysshra

theorem decodeMembersA_append (a : AttrsJ) (l1 l2 : List (Str × JVal)) :
    decodeMembersA a (l1 ++ l2) = (decodeMembersA a l1).bind (fun a' => decodeMembersA a' l2) := by
  induction l1 generalizing a with
  | nil => simp [decodeMembersA]
  | cons m r ih =>
    obtain ⟨name, v⟩ := m
    simp only [List.cons_append, decodeMembersA]
    cases fieldIndex tagsA name with
    | none => exact ih a
    | some i =>
      simp only []
      cases setFieldA a i v with
      | none => simp
      | some a' => exact ih a'

theorem decodeMembersT_append (t : TSudo Str) (l1 l2 : List (Str × JVal)) :
    decodeMembersT t (l1 ++ l2) = (decodeMembersT t l1).bind (fun t' => decodeMembersT t' l2) := by
  induction l1 generalizing t with
  | nil => simp [decodeMembersT]
  | cons m r ih =>
    obtain ⟨name, v⟩ := m
    simp only [List.cons_append, decodeMembersT]
    cases fieldIndex tagsT name with
    | none => exact ih t
    | some i =>
      simp only []
      cases setFieldT t i v with
      | none => simp
      | some t' => exact ih t'

theorem ia0 : fieldIndex tagsA c!"ifVer" = some 0 := by decide
theorem ia1 : fieldIndex tagsA c!"username" = some 1 := by decide
theorem ia2 : fieldIndex tagsA c!"hostname" = some 2 := by decide
theorem ia3 : fieldIndex tagsA c!"sshClientVersion" = some 3 := by decide
theorem ia4 : fieldIndex tagsA c!"caPubKeyAlgo" = some 4 := by decide
theorem ia5 : fieldIndex tagsA c!"signatureAlgo" = some 5 := by decide
theorem ia6 : fieldIndex tagsA c!"hardKey" = some 6 := by decide
theorem ia7 : fieldIndex tagsA c!"touch2SSH" = some 7 := by decide
theorem ia8 : fieldIndex tagsA c!"touchlessSudo" = some 8 := by decide
theorem ia9 : fieldIndex tagsA c!"exts" = some 9 := by decide
theorem it0 : fieldIndex tagsT c!"isFirefighter" = some 0 := by decide
theorem it1 : fieldIndex tagsT c!"hosts" = some 1 := by decide
theorem it2 : fieldIndex tagsT c!"time" = some 2 := by decide

def inI64 (i : Int) : Prop := -(2^63 : Int) ≤ i ∧ i < 2^63

theorem decInt_ofInt (cur i : Int) (h : inI64 i) : decInt 64 cur (.num (.ofInt i)) = some i := by
  simp only [decInt]; exact KeyID.asInt_ofInt i h.1 h.2

/-- touchless-sudo object round trip -/
theorem decTSudo_tsToJ (t : TSudo Str) (h : inI64 t.Time) :
    decTSudo none (tsToJ t) = some (some t) := by
  obtain ⟨ff, hosts, time⟩ := t
  simp only [decTSudo, tsToJ, decodeMembersT_append]
  have e1 : decodeMembersT ⟨false, [], 0⟩ (if ff = true then [(c!"isFirefighter", JVal.bool true)] else [])
      = some ⟨ff, [], 0⟩ := by
    cases ff <;> simp [decodeMembersT, it0, setFieldT, decBool]
  have e2 : decodeMembersT ⟨ff, [], 0⟩ (if hosts ≠ [] then [(c!"hosts", JVal.str hosts)] else [])
      = some ⟨ff, hosts, 0⟩ := by
    by_cases hh : hosts = []
    · simp [hh, decodeMembersT]
    · simp [hh, decodeMembersT, it1, setFieldT, decStr]
  have e3 : decodeMembersT ⟨ff, hosts, 0⟩ (if time ≠ 0 then [(c!"time", JVal.num (.ofInt time))] else [])
      = some ⟨ff, hosts, time⟩ := by
    by_cases ht : time = 0
    · simp [ht, decodeMembersT]
    · simp [ht, decodeMembersT, it2, setFieldT, decInt_ofInt 0 time h]
  rw [e1]; simp only [Option.bind_some]; rw [e2]; simp only [Option.bind_some]; rw [e3]; rfl

/-- keys pairwise distinct -/
def keysNodup {V} (m : List (Str × V)) : Prop := (m.map (·.1)).Nodup

theorem foldl_mapSet_nodup (pre m : List (Str × JVal))
    (h : keysNodup (pre ++ m)) :
    m.foldl (fun acc p => mapSet acc p.1 p.2) pre = pre ++ m := by
  induction m generalizing pre with
  | nil => simp
  | cons p r ih =>
    simp only [List.foldl_cons]
    have hfilter : mapSet pre p.1 p.2 = pre ++ [p] := by
      unfold mapSet
      have : pre.filter (fun q => decide (q.1 ≠ p.1)) = pre := by
        apply List.filter_eq_self.2
        intro q hq
        simp only [keysNodup, List.map_append, List.map_cons] at h
        have := (List.nodup_append.1 h).2.2 q.1 (List.mem_map_of_mem hq) p.1 (by simp)
        simpa using this
      rw [this]
    rw [hfilter]
    have h' : keysNodup ((pre ++ [p]) ++ r) := by simpa [keysNodup] using h
    rw [ih (pre ++ [p]) h']; simp

theorem decExts_obj (exts : JExts) (hn : keysNodup exts) (hf : anyFailsMembers exts = false) :
    decExts [] (.obj exts) = some exts := by
  simp only [decExts, hf]
  have := foldl_mapSet_nodup [] exts (by simpa using hn)
  simpa using this

end Ysshra.Message
