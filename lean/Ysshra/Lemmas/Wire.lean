import Ysshra.Model.Wire
namespace Ysshra.Wire
open Ysshra

theorem u8_ofNat_toNat (n : Nat) (h : n < 256) : (UInt8.ofNat n).toNat = n := by
  simp [UInt8.toNat_ofNat', Nat.mod_eq_of_lt h]

theorem readBe32_be32 (n : Nat) (h : n < 2 ^ 32) (x : Bytes) : readBe32 (be32 n ++ x) = some (n, x) := by
  simp only [be32, List.cons_append, List.nil_append, readBe32]
  rw [u8_ofNat_toNat _ (Nat.mod_lt _ (by decide)), u8_ofNat_toNat _ (Nat.mod_lt _ (by decide)),
      u8_ofNat_toNat _ (Nat.mod_lt _ (by decide)), u8_ofNat_toNat _ (Nat.mod_lt _ (by decide))]
  congr 2
  omega

theorem be32_length (n : Nat) : (be32 n).length = 4 := rfl

theorem max_lt : maxAgentResponseBytes < 2 ^ 32 := by decide

/-- a framed request followed by anything is read back as exactly that request -/
theorem readFrame_frame (r rest : Bytes) (h : r.length ≤ maxAgentResponseBytes) :
    readFrame (be32 r.length ++ r ++ rest) = .frame r rest r.length := by
  unfold readFrame
  have hne : (be32 r.length ++ r ++ rest).isEmpty = false := by simp [be32]
  rw [hne]
  simp only [Bool.false_eq_true, ↓reduceIte, List.append_assoc]
  rw [readBe32_be32 _ (by have := max_lt; omega)]
  have h1 : ¬ r.length > maxAgentResponseBytes := by omega
  simp [h1]
  intro hx; omega

theorem getString_putString (s rest : Bytes) (h : s.length < 2 ^ 32) :
    getString (putString s ++ rest) = some (s, rest) := by
  unfold getString putString
  rw [List.append_assoc, readBe32_be32 _ h]
  simp

end Ysshra.Wire

namespace Ysshra.Wire
theorem getString_putString_nil (s : Bytes) (h : s.length < 2 ^ 32) :
    getString (putString s) = some (s, []) := by
  have := getString_putString s [] h
  rwa [List.append_nil] at this

end Ysshra.Wire

namespace Ysshra.Wire

/-- hypothesis form: keeps the kernel from evaluating `getString (putString …)` on open terms -/
theorem getTwoStrings_of (bs a b r1 : Bytes) (h1 : getString bs = some (a, r1))
    (h2 : getString r1 = some (b, [])) : getTwoStrings bs = some (a, b) := by
  unfold getTwoStrings
  rw [h1]; simp only []; rw [h2]; rfl

theorem getTwoStrings_put (a b : Bytes) (ha : a.length < 2 ^ 32) (hb : b.length < 2 ^ 32) :
    getTwoStrings (putString a ++ putString b) = some (a, b) :=
  getTwoStrings_of _ a b _ (getString_putString a _ ha) (getString_putString_nil b hb)

theorem decAddHardCert_cons (r : Bytes) : decAddHardCert (31 :: r) = getTwoStrings r := rfl

end Ysshra.Wire
