import Ysshra.Wire.JsonIO
import Ysshra.Model.CertType
import Ysshra.Spec.C05
import Ysshra.Spec.C19
/-
`ymodel`: the executable models and specification predicates behind a line protocol.
  in : id \t op \t arg… [\t ## \t implementation-output…]
  out: id \t M \t model-output…          and, when `##` is present,
       id \t S \t ok | bad:<clause>
Core-only imports (links as a `lean_exe`).
-/
open Ysshra Ysshra.IO

def showStrList (l : List Str) : String := "[" ++ String.intercalate "|" (l.map hexOfStr) ++ "]"

def parseStrList (s : String) : Option (List Str) :=
  if s == "[]" then some []
  else if s.startsWith "[" && s.endsWith "]" then
    (((s.drop 1).dropEnd 1).toString.splitOn "|").mapM strOfHex
  else none

/-- `nil` or `map:k=v,k=v` (hex) -/
def parseCrit (s : String) : Option (Option (List (Str × Str))) :=
  if s == "nil" then some none
  else if s == "map:" then some (some [])
  else if s.startsWith "map:" then
    ((s.drop 4).toString.splitOn ",").mapM (fun (kv : String) =>
      match kv.splitOn "=" with
      | [k, v] => do pure ((← strOfHex k), (← strOfHex v))
      | _ => none) |>.map some
  else none

structure Reply where
  model : List String
  spec : Option String := none   -- `none`: no verdict asked / possible; `some "ok"`, `some "bad:…"`

def verdict (o : Option String) : String := match o with
  | none => "ok"
  | some c => "bad:" ++ c

def badProto : Reply := ⟨["protocol-error"], some "bad:protocol"⟩

/-- Stateless operations. `impl` is the implementation's output fields when present. -/
def handleStateless (op : String) (args : List String) (impl : Option (List String)) : Option Reply :=
  match op, args with
  | "keyid.rt", [kidS] =>
    match parseKid kidS with
    | none => some badProto
    | some k =>
      let model := match KeyID.marshal k with
        | .error _ => ["err"]
        | .ok j =>
          let dec := match KeyID.unmarshal (some j) with
            | .ok k' => showKid k'
            | .error _ => "err"
          ["ok", showJ j, dec]
      let spec := impl.map fun out =>
        match out with
        | ["err"] => verdict (Spec.C05.rt k .encErr)
        | ["ok", _, decS] =>
          let dec := if decS == "err" then none else parseKid decS
          if decS != "err" && dec.isNone then "bad:protocol" else
          verdict (Spec.C05.rt k (.encOk none dec))
        | _ => "bad:protocol"
      some ⟨model, spec⟩
  | "keyid.dec", jS :: _ =>
    match jvalOfField jS with
    | none => some badProto
    | some t =>
      let model := match KeyID.unmarshal t with
        | .ok k => ["ok", showKid k]
        | .error _ => ["err"]
      let spec := impl.map fun out =>
        match out with
        | ["err"] => verdict (Spec.C05.dec t none)
        | ["ok", kS] => match parseKid kS with
          | some k => verdict (Spec.C05.dec t (some k))
          | none => "bad:protocol"
        | _ => "bad:protocol"
      some ⟨model, spec⟩
  | "certtype", jS :: critS :: prinsS :: _ =>
    match (if jS == "nilcert" then some none else (jvalOfField jS).map some), parseCrit critS,
          parseStrList prinsS with
    | some jt, some crit, some ps =>
      let cert : Option CertView := jt.map fun t => ⟨t, crit⟩
      let t := getType cert
      let lbl := match certLabel cert with
        | none => "none"
        | some l => hexOfStr l
      let model := [toString t.toNat, lbl, showStrList (getPrincipals ps t)]
      let spec := impl.map fun out =>
        match out with
        | [tS, lS, pS] =>
          match tS.toNat?, (if lS == "none" then some none else (strOfHex lS).map some),
                parseStrList pS with
          | some tn, some l, some ps' => verdict (Spec.C19.check cert ps ⟨tn, l, ps'⟩)
          | _, _, _ => "bad:protocol"
        | _ => "bad:protocol"
      some ⟨model, spec⟩
    | _, _, _ => some badProto
  | _, _ => none

def splitImpl (fs : List String) : List String × Option (List String) :=
  match fs.span (· != "##") with
  | (a, []) => (a, none)
  | (a, _ :: b) => (a, some b)

partial def loop (hin : IO.FS.Stream) (hout : IO.FS.Stream) : IO Unit := do
  let line ← hin.getLine
  if line.isEmpty then return ()
  let line := (line.dropEndWhile (fun c => c == '\n' || c == '\r')).toString
  if line.isEmpty || line.startsWith "#" then
    loop hin hout
  else
    match line.splitOn "\t" with
    | id :: op :: rest =>
      let (args, impl) := splitImpl rest
      let r := match handleStateless op args impl with
        | some r => r
        | none => ⟨["unknown-op"], some "bad:protocol"⟩
      hout.putStrLn (String.intercalate "\t" (id :: "M" :: r.model))
      match r.spec with
      | some v => hout.putStrLn (String.intercalate "\t" [id, "S", v])
      | none => pure ()
    | _ => hout.putStrLn ("?\tM\tprotocol-error")
    loop hin hout

def main : IO Unit := do
  let hin ← IO.getStdin
  let hout ← IO.getStdout
  loop hin hout
  hout.flush
