import Ysshra.Drv.Codec
import Ysshra.Drv.Msg
import Ysshra.Drv.Attest
import Ysshra.Drv.Serve
import Ysshra.Drv.Cond
import Ysshra.Drv.Shim
import Ysshra.Drv.Gensign
import Ysshra.Drv.Crypki
/-
`ymodel`: the executable models and specification predicates behind a line protocol.
  in : id \t op \t arg… [\t ## \t implementation-output…]
  out: id \t M \t model-output…          and, when `##` is present,
       id \t S \t ok | bad:<clause>
Core-only imports (links as a `lean_exe`).
-/
open Ysshra Ysshra.IO Ysshra.Drv

def handlers : List (String → List String → Option (List String) → Option Reply) :=
  [handleCodec, handleMsg, handleAttest, handleServe, handleCond, handleShim, handleGensign, handleCrypki]

def dispatch (op : String) (args : List String) (impl : Option (List String)) : Reply :=
  match handlers.findSome? (fun h => h op args impl) with
  | some r => r
  | none => ⟨["unknown-op"], some "bad:protocol"⟩

def splitImpl (fs : List String) : List String × Option (List String) :=
  match fs.span (· != "##") with
  | (a, []) => (a, none)
  | (a, _ :: b) => (a, some b)

partial def loop (hin : IO.FS.Stream) (hout : IO.FS.Stream) : IO Unit := do
  let line ← hin.getLine
  if line.isEmpty then return ()
  let line := (line.dropEndWhile (fun c => c == '\n' || c == '\r')).toString
  if line.isEmpty || line.startsWith "#" then
    loop hin hout
  else
    match line.splitOn "\t" with
    | id :: op :: rest =>
      let (args, impl) := splitImpl rest
      let r := dispatch op args impl
      hout.putStrLn (String.intercalate "\t" (id :: "M" :: r.model))
      match r.spec with
      | some v => hout.putStrLn (String.intercalate "\t" [id, "S", v])
      | none => pure ()
    | _ => hout.putStrLn ("?\tM\tprotocol-error")
    loop hin hout

def main : IO Unit := do
  let hin ← IO.getStdin
  let hout ← IO.getStdout
  loop hin hout
  hout.flush
