import Ysshra.Util
import Ysshra.Model.Json
import Ysshra.Model.KeyId
